// Package vexec replaces os/exec in supervisor/local_supervisor.go with a simulated kernel: a
// process table with process groups, signals and exit statuses. Programs are scripts registered by
// the harness under an executable path; their behaviour runs on scheduler threads.
package vexec

import (
	"fmt"
	"io"
	"io/fs"
	"os"
	"sort"
	"syscall"

	"go.amzn.com/verifrt/sched"
)

// Event is one entry of the kernel log (ground truth for the oracles).
type Event struct {
	Step   int
	TimeNs int64
	Kind   string // exec, execfail, signal, exit, reap
	Pid    int
	Path   string
	Sig    int
	Group  bool
	Code   int // exit code, or -signal when killed
	Env    []string
	Args   []string
	Dir    string
	At     sched.Stamp
	Tid    string // id of the scheduler thread that performed the operation (attribution of signals to calls)
}

// Proc is a simulated process.
type Proc struct {
	Pid, Pgid int
	Path      string
	Args      []string
	Env       []string
	Dir       string
	Alive     bool
	Reaped    bool
	Code      int           // exit code if exited normally
	Sig       int           // terminating signal, 0 if exited
	OnTerm    func(p *Proc) // reaction to SIGTERM, runs on its own thread; nil = default action (die by SIGTERM)
	Data      any
	// Doomed: a SIGKILL has been delivered to the process while it was alive (it is dead, or - with
	// Program.AsyncKill - will die at a later step). DoomStep is the step of that kill(2).
	Doomed    bool
	DoomStep  int
	asyncKill bool
	obj       sched.Obj
	k         *Kernel
}

// Program is what the harness registers under an executable path.
type Program struct {
	// StartErr, if non-nil, makes exec fail with this error.
	StartErr error
	// FailFirst limits StartErr to the first FailFirst launches (0 = every launch fails).
	FailFirst int
	launches  int
	// Main runs on a fresh thread as the process body. It must check p.Alive after every blocking step.
	Main func(p *Proc)
	// OnTerm is the SIGTERM reaction (nil: die by the signal).
	OnTerm func(p *Proc)
	// AsyncKill (opt-in): SIGKILL does not take effect inside kill(2) but at a later step of its own
	// thread "sigkill:<pid>", as on a real kernel where the victim has to be scheduled to die. Forked
	// children inherit it. Default (false): the process is dead when kill(2) returns.
	AsyncKill bool
}

// Kernel is the simulated process table of one execution.
type Kernel struct {
	Procs    map[int]*Proc
	nextPid  int
	Programs map[string]*Program
	Log      []Event
	epoch    uint64
	tab      sched.Obj // the process table as a shared object: touched by exec and fork
}

var kern *Kernel

// K returns the kernel of the current execution (created on first use).
func K() *Kernel {
	ep := uint64(0)
	if e := sched.Cur(); e != nil {
		ep = e.Epoch
	}
	if kern == nil || kern.epoch != ep {
		kern = &Kernel{Procs: map[int]*Proc{}, nextPid: 100, Programs: map[string]*Program{}, epoch: ep}
	}
	return kern
}

func (k *Kernel) log(ev Event) {
	ev.Step = sched.StepNo()
	ev.TimeNs = sched.NowNs()
	ev.At = sched.StampNow()
	if t := sched.Me(); t != nil {
		ev.Tid = t.ID
	}
	k.Log = append(k.Log, ev)
	sched.Record(fmt.Sprintf("k:%s:%d:%d:%d", ev.Kind, ev.Pid, ev.Sig, ev.Code))
}

// Register binds a program to an executable path.
func (k *Kernel) Register(path string, p *Program) { k.Programs[path] = p }

// Live reports whether the process is alive (a visible read of the process object).
func (p *Proc) Live() bool {
	sched.Observe(&p.obj)
	return p.Alive
}

// Exit terminates the process with an exit code (called by its own script).
func (p *Proc) Exit(code int) {
	if !p.Alive {
		return
	}
	p.Alive = false
	p.Code = code
	p.k.log(Event{Kind: "exit", Pid: p.Pid, Path: p.Path, Code: code})
	sched.Touch(&p.obj, 21) // after the log entry, so that its stamp travels with the death notice
}

// Die terminates the process by a signal.
func (p *Proc) Die(sig int) {
	if !p.Alive {
		return
	}
	p.Alive = false
	p.Sig = sig
	p.k.log(Event{Kind: "exit", Pid: p.Pid, Path: p.Path, Code: -sig})
	sched.Touch(&p.obj, 22)
}

// Fork creates a child process in the same process group.
func (p *Proc) Fork(path string, main func(c *Proc), onTerm func(c *Proc)) *Proc {
	k := p.k
	k.nextPid++
	c := &Proc{Pid: k.nextPid, Pgid: p.Pgid, Path: path, Alive: true, OnTerm: onTerm, k: k, Env: p.Env, Dir: p.Dir, asyncKill: p.asyncKill}
	k.Procs[c.Pid] = c
	sched.Touch(&k.tab, 26)
	sched.Touch(&p.obj, 23) // the group of p changes: visible to ObserveGroup readers
	sched.Touch(&c.obj, 24)
	k.log(Event{Kind: "fork", Pid: c.Pid, Path: path})
	if main != nil {
		sched.Go("proc:"+path, func() { main(c) })
	}
	return c
}

// Detached creates a process the supervisor knows nothing about (e.g. a double-forked child of an
// earlier generation, or any other local client of the Runtime API): nobody ever signals it.
func (k *Kernel) Detached(path string) *Proc {
	k.nextPid++
	p := &Proc{Pid: k.nextPid, Pgid: k.nextPid, Path: path, Alive: true, k: k}
	k.Procs[p.Pid] = p
	return p
}

// Signal delivers sig to one process.
func (k *Kernel) signalOne(p *Proc, sig int) {
	if !p.Alive {
		return
	}
	if p.Doomed && syscall.Signal(sig) != syscall.SIGKILL {
		return // a pending SIGKILL wins: no handler runs, no other signal becomes the cause of death
	}
	switch syscall.Signal(sig) {
	case syscall.SIGKILL:
		if p.Doomed {
			return
		}
		p.Doomed, p.DoomStep = true, sched.StepNo()
		if p.asyncKill {
			sched.Touch(&p.obj, 27)
			sched.Go(fmt.Sprintf("sigkill:%d", p.Pid), func() { p.Die(sig) })
			return
		}
		p.Die(sig)
	case syscall.SIGTERM:
		h := p.OnTerm
		if h == nil {
			p.Die(sig)
			return
		}
		sched.Go(fmt.Sprintf("sigterm:%d", p.Pid), func() {
			if p.Alive && !p.Doomed {
				h(p)
			}
		})
	default:
		p.Die(sig)
	}
}

// Kill implements kill(2): pid > 0 one process, pid < 0 the process group -pid.
func (k *Kernel) Kill(pid int, sig int) error {
	sched.Yield("kill", nil)
	if pid > 0 {
		p := k.Procs[pid]
		if p == nil || p.Reaped {
			return syscall.ESRCH
		}
		k.log(Event{Kind: "signal", Pid: pid, Sig: sig, Path: p.Path})
		k.signalOne(p, sig)
		return nil
	}
	pgid := -pid
	var members []*Proc
	for _, p := range k.Procs {
		if p.Pgid == pgid && !p.Reaped {
			members = append(members, p)
		}
	}
	if len(members) == 0 {
		return syscall.ESRCH
	}
	sort.Slice(members, func(i, j int) bool { return members[i].Pid < members[j].Pid })
	k.log(Event{Kind: "signal", Pid: pgid, Sig: sig, Group: true, Path: members[0].Path})
	for _, p := range members {
		k.signalOne(p, sig)
	}
	return nil
}

// Getpgid implements getpgid(2).
func (k *Kernel) Getpgid(pid int) (int, error) {
	p := k.Procs[pid]
	if p == nil || p.Reaped {
		return 0, syscall.ESRCH
	}
	return p.Pgid, nil
}

// GroupAlive reports whether any member of the group is alive.
func (k *Kernel) GroupAlive(pgid int) bool {
	for _, p := range k.Procs {
		if p.Pgid == pgid && p.Alive {
			return true
		}
	}
	return false
}

// Observe folds a read of the process state (Alive, Reaped, Code, Sig) into the causal chain of the
// running thread, so that "read before the exit" and "read after the exit" are different states for
// the happens-before cache. Harness oracles call it when they snapshot a process.
func (p *Proc) Observe() { sched.Observe(&p.obj) }

// ObserveTable folds a read of the process table (which pids exist) into the running thread's chain.
func (k *Kernel) ObserveTable() { sched.Observe(&k.tab) }

// ObserveGroup is Observe for every member of a process group (in pid order).
func (k *Kernel) ObserveGroup(pgid int) {
	var members []*Proc
	for _, p := range k.Procs {
		if p.Pgid == pgid {
			members = append(members, p)
		}
	}
	sort.Slice(members, func(i, j int) bool { return members[i].Pid < members[j].Pid })
	for _, p := range members {
		sched.Observe(&p.obj)
	}
}

// GroupSurvivors returns the pids of the group members that are alive and have no SIGKILL pending.
func (k *Kernel) GroupSurvivors(pgid int) []int {
	var out []int
	for _, p := range k.Procs {
		if p.Pgid == pgid && p.Alive && !p.Doomed {
			out = append(out, p.Pid)
		}
	}
	sort.Ints(out)
	return out
}

// ---- os/exec surface used by the supervisor ----

type Process struct {
	Pid int
	p   *Proc
}

type Cmd struct {
	Path        string
	Args        []string
	Env         []string
	Dir         string
	Stdin       io.Reader
	Stdout      io.Writer
	Stderr      io.Writer
	ExtraFiles  []*os.File
	SysProcAttr *syscall.SysProcAttr
	Process     *Process
	started     bool
	waited      bool
}

func Command(name string, arg ...string) *Cmd {
	return &Cmd{Path: name, Args: append([]string{name}, arg...)}
}

// ExitError mirrors exec.ExitError for the parts the supervisor reads.
type ExitError struct {
	ws syscall.WaitStatus
}

func (e *ExitError) Error() string {
	if e.ws.Signaled() {
		return "signal: " + e.ws.Signal().String()
	}
	return fmt.Sprintf("exit status %d", e.ws.ExitStatus())
}
func (e *ExitError) Sys() any      { return e.ws }
func (e *ExitError) ExitCode() int { return e.ws.ExitStatus() }

func (c *Cmd) Start() error {
	if c.started {
		return fmt.Errorf("exec: already started")
	}
	k := K()
	sched.Yield("exec", nil)
	prog := k.Programs[c.Path]
	if prog == nil {
		k.log(Event{Kind: "execfail", Path: c.Path})
		return &fs.PathError{Op: "fork/exec", Path: c.Path, Err: syscall.ENOENT}
	}
	prog.launches++
	if prog.StartErr != nil && (prog.FailFirst == 0 || prog.launches <= prog.FailFirst) {
		k.log(Event{Kind: "execfail", Path: c.Path})
		return &fs.PathError{Op: "fork/exec", Path: c.Path, Err: prog.StartErr}
	}
	c.started = true
	k.nextPid++
	p := &Proc{Pid: k.nextPid, Path: c.Path, Args: c.Args, Env: append([]string{}, c.Env...), Dir: c.Dir, Alive: true, OnTerm: prog.OnTerm, k: k, asyncKill: prog.AsyncKill}
	p.Pgid = p.Pid // Setpgid: own group (the supervisor always asks for it)
	if c.SysProcAttr == nil || !c.SysProcAttr.Setpgid {
		p.Pgid = 1
	}
	k.Procs[p.Pid] = p
	sched.Touch(&k.tab, 25)
	c.Process = &Process{Pid: p.Pid, p: p}
	k.log(Event{Kind: "exec", Pid: p.Pid, Path: c.Path, Env: p.Env, Args: c.Args, Dir: c.Dir})
	if prog.Main != nil {
		sched.Go("proc:"+c.Path, func() { prog.Main(p) })
	}
	return nil
}

func (c *Cmd) Wait() error {
	if !c.started {
		return fmt.Errorf("exec: not started")
	}
	if c.waited {
		return fmt.Errorf("exec: Wait was already called")
	}
	c.waited = true
	p := c.Process.p
	sched.Block("waitpid", &p.obj, func() bool { return !p.Alive })
	p.Reaped = true
	p.k.log(Event{Kind: "reap", Pid: p.Pid, Path: p.Path})
	if p.Sig != 0 {
		return &ExitError{ws: syscall.WaitStatus(p.Sig)}
	}
	if p.Code != 0 {
		return &ExitError{ws: syscall.WaitStatus(p.Code << 8)}
	}
	return nil
}

func (c *Cmd) Run() error {
	if err := c.Start(); err != nil {
		return err
	}
	return c.Wait()
}
