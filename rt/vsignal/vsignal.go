// Package vsignal replaces os/signal for instrumented code: no signal ever arrives.
package vsignal

import "os"

func Notify(c chan<- os.Signal, sig ...os.Signal) {}
func Stop(c chan<- os.Signal)                     {}
func Ignore(sig ...os.Signal)                     {}
func Reset(sig ...os.Signal)                      {}
func Ignored(sig os.Signal) bool                  { return false }
