// Package vsort provides deterministic (sorted) map iteration for instrumented code.
package vsort

import (
	"cmp"
	"sort"
)

// Keys returns the keys of m in ascending order (one of the orders Go's map iteration may produce).
func Keys[M ~map[K]V, K cmp.Ordered, V any](m M) []K {
	ks := make([]K, 0, len(m))
	for k := range m {
		ks = append(ks, k)
	}
	sort.Slice(ks, func(i, j int) bool { return ks[i] < ks[j] })
	return ks
}
