// Package vsync replaces package sync for instrumented code: every blocking operation is a
// scheduling point of the controlled scheduler.
package vsync

import (
	"sync"

	"go.amzn.com/verifrt/sched"
)

// Locker is sync.Locker.
type Locker = sync.Locker

// Pool is left native: it carries no inter-thread signalling the properties depend on.
type Pool = sync.Pool

type mstate struct {
	obj    sched.Obj
	locked bool
	epoch  uint64
}

// Mutex is a scheduler-visible mutual exclusion lock.
type Mutex struct{ s *mstate }

func (m *Mutex) st() *mstate {
	ep := uint64(0)
	if e := sched.Cur(); e != nil {
		ep = e.Epoch
	}
	if m.s == nil || m.s.epoch != ep {
		m.s = &mstate{epoch: ep}
	}
	return m.s
}

func (m *Mutex) Lock() {
	s := m.st()
	sched.Block("Lock", &s.obj, func() bool { return !s.locked })
	s.locked = true
}

func (m *Mutex) TryLock() bool {
	s := m.st()
	sched.Yield("TryLock", &s.obj)
	if s.locked {
		return false
	}
	s.locked = true
	return true
}

func (m *Mutex) Unlock() {
	if sched.Aborting() {
		return
	}
	s := m.st()
	if !s.locked {
		panic("sync: unlock of unlocked mutex")
	}
	s.locked = false
	sched.Touch(&s.obj, 2)
}

type rwstate struct {
	obj     sched.Obj
	writer  bool
	readers int
	epoch   uint64
}

// RWMutex is a scheduler-visible reader/writer lock (no writer preference modelled).
type RWMutex struct{ s *rwstate }

func (m *RWMutex) st() *rwstate {
	ep := uint64(0)
	if e := sched.Cur(); e != nil {
		ep = e.Epoch
	}
	if m.s == nil || m.s.epoch != ep {
		m.s = &rwstate{epoch: ep}
	}
	return m.s
}

func (m *RWMutex) Lock() {
	s := m.st()
	sched.Block("RW.Lock", &s.obj, func() bool { return !s.writer && s.readers == 0 })
	s.writer = true
}

func (m *RWMutex) Unlock() {
	if sched.Aborting() {
		return
	}
	s := m.st()
	if !s.writer {
		panic("sync: Unlock of unlocked RWMutex")
	}
	s.writer = false
	sched.Touch(&s.obj, 2)
}

func (m *RWMutex) RLock() {
	s := m.st()
	sched.Block("RW.RLock", &s.obj, func() bool { return !s.writer })
	s.readers++
}

func (m *RWMutex) RUnlock() {
	if sched.Aborting() {
		return
	}
	s := m.st()
	if s.readers <= 0 {
		panic("sync: RUnlock of unlocked RWMutex")
	}
	s.readers--
	sched.Touch(&s.obj, 4)
}

func (m *RWMutex) TryLock() bool {
	s := m.st()
	sched.Yield("RW.TryLock", &s.obj)
	if s.writer || s.readers > 0 {
		return false
	}
	s.writer = true
	return true
}

func (m *RWMutex) TryRLock() bool {
	s := m.st()
	sched.Yield("RW.TryRLock", &s.obj)
	if s.writer {
		return false
	}
	s.readers++
	return true
}

type rlocker RWMutex

func (r *rlocker) Lock()   { (*RWMutex)(r).RLock() }
func (r *rlocker) Unlock() { (*RWMutex)(r).RUnlock() }

func (m *RWMutex) RLocker() Locker { return (*rlocker)(m) }

type waiter struct {
	signaled bool
}

type cstate struct {
	obj     sched.Obj
	waiters []*waiter
	epoch   uint64
}

// Cond is a scheduler-visible condition variable with FIFO Signal, as Go's notifyList.
type Cond struct {
	L Locker
	s *cstate
}

func NewCond(l Locker) *Cond { return &Cond{L: l} }

func (c *Cond) st() *cstate {
	ep := uint64(0)
	if e := sched.Cur(); e != nil {
		ep = e.Epoch
	}
	if c.s == nil || c.s.epoch != ep {
		c.s = &cstate{epoch: ep}
	}
	return c.s
}

func (c *Cond) Wait() {
	s := c.st()
	w := &waiter{}
	s.waiters = append(s.waiters, w)
	sched.Touch(&s.obj, 5)
	c.L.Unlock()
	sched.Block("Cond.Wait", &s.obj, func() bool { return w.signaled })
	c.L.Lock()
}

func (c *Cond) Signal() {
	if sched.Aborting() {
		return
	}
	s := c.st()
	sched.Touch(&s.obj, 6)
	if len(s.waiters) > 0 {
		s.waiters[0].signaled = true
		s.waiters = s.waiters[1:]
	}
}

func (c *Cond) Broadcast() {
	if sched.Aborting() {
		return
	}
	s := c.st()
	sched.Touch(&s.obj, 7)
	for _, w := range s.waiters {
		w.signaled = true
	}
	s.waiters = nil
}

type ostate struct {
	obj     sched.Obj
	done    bool
	running bool
	epoch   uint64
}

// Once is a scheduler-visible sync.Once.
type Once struct{ s *ostate }

func (o *Once) Do(f func()) {
	ep := uint64(0)
	if e := sched.Cur(); e != nil {
		ep = e.Epoch
	}
	if o.s == nil || o.s.epoch != ep {
		o.s = &ostate{epoch: ep}
	}
	s := o.s
	sched.Block("Once.Do", &s.obj, func() bool { return !s.running })
	if s.done {
		return
	}
	s.running = true
	defer func() {
		s.running = false
		s.done = true
		sched.Touch(&s.obj, 8)
	}()
	f()
}

type wstate struct {
	obj   sched.Obj
	n     int
	epoch uint64
}

// WaitGroup is a scheduler-visible sync.WaitGroup.
type WaitGroup struct{ s *wstate }

func (w *WaitGroup) st() *wstate {
	ep := uint64(0)
	if e := sched.Cur(); e != nil {
		ep = e.Epoch
	}
	if w.s == nil || w.s.epoch != ep {
		w.s = &wstate{epoch: ep}
	}
	return w.s
}

func (w *WaitGroup) Add(d int) {
	if sched.Aborting() {
		return
	}
	s := w.st()
	s.n += d
	if s.n < 0 {
		panic("sync: negative WaitGroup counter")
	}
	sched.Touch(&s.obj, 9)
}

func (w *WaitGroup) Done() { w.Add(-1) }

func (w *WaitGroup) Wait() {
	s := w.st()
	sched.Block("WaitGroup.Wait", &s.obj, func() bool { return s.n == 0 })
}

// Map is a scheduler-visible sync.Map (each operation is a visible step).
type Map struct {
	obj sched.Obj
	m   map[any]any
}

func (m *Map) Load(k any) (any, bool) {
	sched.Yield("Map.Load", &m.obj)
	v, ok := m.m[k]
	return v, ok
}
func (m *Map) Store(k, v any) {
	sched.Yield("Map.Store", &m.obj)
	if m.m == nil {
		m.m = map[any]any{}
	}
	m.m[k] = v
}
func (m *Map) LoadOrStore(k, v any) (any, bool) {
	sched.Yield("Map.LoadOrStore", &m.obj)
	if m.m == nil {
		m.m = map[any]any{}
	}
	if x, ok := m.m[k]; ok {
		return x, true
	}
	m.m[k] = v
	return v, false
}
func (m *Map) LoadAndDelete(k any) (any, bool) {
	sched.Yield("Map.LoadAndDelete", &m.obj)
	v, ok := m.m[k]
	delete(m.m, k)
	return v, ok
}
func (m *Map) Delete(k any) {
	sched.Yield("Map.Delete", &m.obj)
	delete(m.m, k)
}
func (m *Map) Range(f func(k, v any) bool) {
	sched.Yield("Map.Range", &m.obj)
	for k, v := range m.m {
		if !f(k, v) {
			return
		}
	}
}

// OnceFunc mirrors sync.OnceFunc.
func OnceFunc(f func()) func() {
	var o Once
	return func() { o.Do(f) }
}
