package sched

import (
	"fmt"
	"strings"
	"time"
)

// Options bound an exploration.
type Options struct {
	Bound         int       // deviation bound (preemptions + early expiries); free choices are always expanded
	MaxSteps      int       // per-execution horizon
	MaxExecs      int64     // cap on executions (0 = none)
	Deadline      time.Time // real-time cap (zero = none); hitting it yields Exhaustive=false, never a verdict
	NoCache       bool      // disable happens-before caching (cross-validation)
	NoEarlyClock  bool      // timers never overtake runnable threads
	HoldBack      bool      // one more kind of deviation: hold a goroutine of the repository back until everybody else waits (see sched.HoldBack)
	HoldLagNs     int64     // how far a held thread may lag behind in virtual time (see sched.HoldLagNs)
	BoundAll      bool      // every departure from the default scheduler is a deviation (see sched.BoundAll)
	HorizonClause string    // if set, hitting the step horizon is a violation of this clause (termination properties), not an engine problem
	Trace         bool
}

// Failure is an oracle verdict on one execution.
type Failure struct {
	Clause string // numbered clause of the property
	Msg    string
	Sig    string // signature (stable identification of the failing class)
}

// Violation is a failure together with the schedule that reproduces it.
type Violation struct {
	Failure
	Choices []int
	Digest  string
	Log     []string
	Crash   *Crash
	// RacySites is the set of racy accesses that were scheduling points when the schedule was recorded (a replay
	// in another process must use the same set)
	RacySites []string
}

// Stats summarise an exploration.
type Stats struct {
	Execs         int64
	Pruned        int64
	States        int64 // distinct fingerprints seen
	Transitions   int64
	Exhaustive    bool
	CapHit        string
	Outcomes      map[string]int64
	MaxDepth      int
	Violations    []Violation
	SampleChoices [][]int
	RacyRounds    int // how often the search was repeated because new racing accesses had been found
}

func (s *Stats) Merge(o *Stats) {
	s.Execs += o.Execs
	s.Pruned += o.Pruned
	s.States += o.States
	s.Transitions += o.Transitions
	if !o.Exhaustive {
		s.Exhaustive = false
		if s.CapHit == "" {
			s.CapHit = o.CapHit
		}
	}
	if s.Outcomes == nil {
		s.Outcomes = map[string]int64{}
	}
	for k, v := range o.Outcomes {
		s.Outcomes[k] += v
	}
	if o.MaxDepth > s.MaxDepth {
		s.MaxDepth = o.MaxDepth
	}
	s.Violations = append(s.Violations, o.Violations...)
	if len(s.SampleChoices) < 3 {
		s.SampleChoices = append(s.SampleChoices, o.SampleChoices...)
	}
}

type dfsStrategy struct {
	prefix []int
	bound  int
	used   int
	cache  map[Hash]int
	states *int64
}

func (d *dfsStrategy) Pick(idx int, p *Point) int {
	if idx < len(d.prefix) {
		c := d.prefix[idx]
		if c >= p.N {
			panic(fmt.Sprintf("verif: replay divergence at decision %d: recorded choice %d, only %d alternatives", idx, c, p.N))
		}
		d.used += p.Costs[c]
		return c
	}
	if d.cache != nil {
		rem := d.bound - d.used
		if rem < 0 {
			rem = 0
		}
		if v, ok := d.cache[p.Key]; ok {
			if v >= rem+1 {
				return -1
			}
		} else {
			*d.states++
		}
		d.cache[p.Key] = rem + 1
	}
	return 0
}

// ReplayStrategy follows a recorded list of choices and then takes defaults.
type ReplayStrategy struct{ Choices []int }

func (r *ReplayStrategy) Pick(idx int, p *Point) int {
	if idx < len(r.Choices) {
		if r.Choices[idx] >= p.N {
			panic(fmt.Sprintf("verif: replay divergence at decision %d: recorded choice %d, only %d alternatives", idx, r.Choices[idx], p.N))
		}
		return r.Choices[idx]
	}
	return 0
}

// Judge evaluates one finished execution: it returns an outcome label (for the vacuity statistics),
// a digest of the observations (for replay determinism) and a failure, if any.
type Judge func(e *Exec) (outcome string, digest string, fail *Failure)

// Explore runs body under every schedule within opt and judges each complete execution. When the executions
// found accesses racing that were not scheduling points yet (sched.RacyPending) the search is repeated with them
// (at most 4 rounds); the statistics add up, violations of every round are reported.
func Explore(opt Options, body func(), judge Judge) *Stats {
	MergeRacyPending()
	st := exploreOnce(opt, body, judge)
	for round := 0; round < 4 && len(st.Violations) == 0 && st.Exhaustive && MergeRacyPending(); round++ {
		st2 := exploreOnce(opt, body, judge)
		st2.Execs += st.Execs
		st2.Pruned += st.Pruned
		st2.Transitions += st.Transitions
		st2.States += st.States
		st2.RacyRounds = st.RacyRounds + 1
		for k, v := range st.Outcomes {
			st2.Outcomes[k] += v
		}
		st = st2
	}
	return st
}

func exploreOnce(opt Options, body func(), judge Judge) *Stats {
	st := &Stats{Exhaustive: true, Outcomes: map[string]int64{}}
	BoundAll, NoEarlyClock, HoldBack, HoldLagNs = opt.BoundAll, opt.NoEarlyClock, opt.HoldBack, opt.HoldLagNs
	defer func() { BoundAll, NoEarlyClock, HoldBack, HoldLagNs = false, false, false, 0 }()
	if opt.MaxSteps == 0 {
		opt.MaxSteps = 200000
	}
	var cache map[Hash]int
	if !opt.NoCache {
		cache = map[Hash]int{}
	}
	type item struct{ prefix []int }
	stack := []item{{}}
	sigSeen := map[string]bool{}
	for len(stack) > 0 {
		if opt.MaxExecs > 0 && st.Execs >= opt.MaxExecs {
			st.Exhaustive = false
			st.CapHit = fmt.Sprintf("max executions %d", opt.MaxExecs)
			break
		}
		if !opt.Deadline.IsZero() && st.Execs%64 == 0 && time.Now().After(opt.Deadline) {
			st.Exhaustive = false
			st.CapHit = "deadline"
			break
		}
		it := stack[len(stack)-1]
		stack = stack[:len(stack)-1]
		d := &dfsStrategy{prefix: it.prefix, bound: opt.Bound, cache: cache, states: &st.States}
		e := Run(d, opt.MaxSteps, false, body)
		st.Execs++
		st.Transitions += int64(e.Transitions)
		pts := e.Points
		if e.Status() == Pruned {
			st.Pruned++
			pts = pts[:len(pts)-1]
		} else {
			if e.Status() == StepLimit && e.WallLimitHit {
				st.Exhaustive = false
				st.CapHit = "one execution exceeded the wall-clock limit"
				break
			}
			if e.Status() == StepLimit {
				if opt.HorizonClause != "" {
					st.Violations = append(st.Violations, Violation{Failure: Failure{Clause: opt.HorizonClause, Msg: fmt.Sprintf("the execution is still running after %d steps (threads or timers never come to rest)", opt.MaxSteps), Sig: "no-termination-within-horizon"}, Choices: choicesOf(e.Points), RacySites: ActiveRacySites()})
					break
				}
				st.Violations = append(st.Violations, Violation{Failure: Failure{Clause: "engine", Msg: "step horizon hit", Sig: "steplimit"}, Choices: choicesOf(e.Points), RacySites: ActiveRacySites()})
				st.Exhaustive = false
				st.CapHit = "step horizon"
				break
			}
			outcome, digest, fail := judge(e)
			st.Outcomes[outcome]++
			if len(st.SampleChoices) < 3 {
				st.SampleChoices = append(st.SampleChoices, choicesOf(e.Points))
			}
			if fail != nil && !sigSeen[fail.Sig] {
				sigSeen[fail.Sig] = true
				v := Violation{Failure: *fail, Choices: choicesOf(e.Points), Digest: digest, Crash: e.Crash, RacySites: ActiveRacySites()}
				// confirm by replaying the schedule twice, with a step log
				ok := true
				for k := 0; k < 2; k++ {
					r := Run(&ReplayStrategy{Choices: v.Choices}, opt.MaxSteps, true, body)
					_, dg, f2 := judge(r)
					if dg != digest || f2 == nil || f2.Sig != fail.Sig {
						ok = false
					}
					v.Log = r.Log
				}
				if !ok {
					v.Failure = Failure{Clause: "engine", Msg: "violation did not reproduce identically on replay (uncontrolled nondeterminism): " + fail.Msg, Sig: "nondeterminism:" + fail.Sig}
				}
				st.Violations = append(st.Violations, v)
			}
		}
		if len(pts) > st.MaxDepth {
			st.MaxDepth = len(pts)
		}
		used := 0
		for i := 0; i < len(pts); i++ {
			p := pts[i]
			if i >= len(it.prefix) {
				for alt := p.N - 1; alt >= 1; alt-- {
					if used+p.Costs[alt] <= opt.Bound {
						np := make([]int, i+1)
						for j := 0; j < i; j++ {
							np[j] = pts[j].Chosen
						}
						np[i] = alt
						stack = append(stack, item{np})
					}
				}
			}
			used += p.Costs[p.Chosen]
		}
	}
	return st
}

func choicesOf(pts []Point) []int {
	c := make([]int, len(pts))
	for i, p := range pts {
		c[i] = p.Chosen
	}
	return c
}

// Replay runs one recorded schedule with a step log.
func Replay(choices []int, maxSteps int, body func()) *Exec {
	if maxSteps == 0 {
		maxSteps = 200000
	}
	return Run(&ReplayStrategy{Choices: choices}, maxSteps, true, body)
}

// RenderChoices renders a schedule compactly.
func RenderChoices(c []int) string {
	var sb strings.Builder
	for i, x := range c {
		if i > 0 {
			sb.WriteByte(',')
		}
		fmt.Fprintf(&sb, "%d", x)
	}
	return sb.String()
}
