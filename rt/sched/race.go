package sched

import (
	"fmt"
	"sort"
	"unsafe"
)

// Data-race detection over the explored executions (race build of the instrumenter only: `vinstr -race`
// wraps every access of the repository's code to a struct field, a package-level variable, a map or a
// captured local variable into R / W / MR / MW). The happens-before relation is the one the explorer itself
// uses (vector clocks joined at every visible operation on a common object, at spawn, join, timer creation
// and firing): two accesses to one address, at least one of them a write, that are not ordered by it are
// reported. Every access ticks the thread's own component, so an access made after a release is never taken
// for one made before it.

// RaceRec is one unordered pair of source positions found racing.
type RaceRec struct {
	Kind  string `json:"kind"` // write-write | read-write
	A     string `json:"a"`
	B     string `json:"b"`
	ThA   string `json:"thread_a"`
	ThB   string `json:"thread_b"`
	Count int    `json:"count"`
}

type raceRd struct {
	t   int
	clk uint32
	pos string
	th  string
}

type raceCell struct {
	wT   int
	wClk uint32
	wPos string
	wTh  string
	has  bool
	rds  []raceRd
}

// RaceLog accumulates the races found by all executions of this process (drained by the harness frame).
var RaceLog = map[string]*RaceRec{}

// Racy sites. An access whose position key ("dir/file.go Func expr", the position without its line number) is in
// RacyActive is preceded by a scheduling point (racyPoint). The set starts as racy_sites.txt (SetRacySites, called
// by the worker's main) and grows: when an execution finds a racing pair whose keys are not active yet they are put
// into RacyPending, and Explore merges them and explores the scenario again (the set must not change inside one
// depth-first search, recorded prefixes would no longer replay). So a change to the repository that creates a new
// unsynchronised access - a dropped lock, a buffer hoisted to package scope - gets its interleavings explored
// without anybody editing the list.
var (
	RacyActive  = map[string]bool{}
	RacyPending = map[string]bool{}
	racyOfPos   = map[string]bool{} // position string -> active? (cache)
)

// RacyKey strips the line number from a position string.
func RacyKey(pos string) string {
	i := 0
	for i < len(pos) && pos[i] != ':' {
		i++
	}
	j := i
	for j < len(pos) && pos[j] != ' ' {
		j++
	}
	if i == len(pos) {
		return pos
	}
	return pos[:i] + pos[j:]
}

// SetRacySites replaces the active set.
func SetRacySites(keys []string) {
	RacyActive = map[string]bool{}
	for _, k := range keys {
		RacyActive[k] = true
	}
	racyOfPos = map[string]bool{}
}

// MergeRacyPending activates the sites found racing since the last merge; it reports whether there were any.
func MergeRacyPending() bool {
	n := 0
	for k := range RacyPending {
		if !RacyActive[k] {
			RacyActive[k] = true
			n++
		}
	}
	RacyPending = map[string]bool{}
	if n > 0 {
		racyOfPos = map[string]bool{}
	}
	return n > 0
}

// ActiveRacySites lists the active set, sorted.
func ActiveRacySites() []string {
	var out []string
	for k := range RacyActive {
		out = append(out, k)
	}
	sort.Strings(out)
	return out
}

func racyActive(pos string) bool {
	v, ok := racyOfPos[pos]
	if !ok {
		v = RacyActive[RacyKey(pos)]
		racyOfPos[pos] = v
	}
	return v
}

// RaceAccesses counts instrumented accesses checked (evidence of coverage).
var RaceAccesses int64

// DrainRaces returns and clears the accumulated race records, sorted.
func DrainRaces() []RaceRec {
	var out []RaceRec
	for _, r := range RaceLog {
		out = append(out, *r)
	}
	RaceLog = map[string]*RaceRec{}
	sort.Slice(out, func(i, j int) bool {
		if out[i].A != out[j].A {
			return out[i].A < out[j].A
		}
		return out[i].B < out[j].B
	})
	return out
}

// mapFatal: in the normal build an unordered pair of map accesses with a write among them ends the execution
// the way the Go runtime ends the process when it notices one ("fatal error: concurrent map read and map
// write" / "concurrent map writes" cannot be recovered).
func mapFatal(kind, a, tha, b, thb string) {
	e := cur
	what := "concurrent map read and map write"
	if kind == "write-write" {
		what = "concurrent map writes"
	}
	if a > b {
		a, b, tha, thb = b, a, thb, tha
	}
	e.Crash = &Crash{Thread: e.running.ID, Name: e.running.Name, Value: fmt.Sprintf("fatal error: %s (unsynchronised accesses %s [%s] and %s [%s])", what, a, tha, b, thb)}
	e.end(Crashed)
	panic(abortSentinel)
}

func raceReport(kind, a, tha, b, thb string) {
	if !RaceBuild {
		for _, k := range []string{RacyKey(a), RacyKey(b)} {
			if !RacyActive[k] {
				RacyPending[k] = true
			}
		}
	}
	if a > b {
		a, b, tha, thb = b, a, thb, tha
	}
	k := kind + "|" + a + "|" + b
	r := RaceLog[k]
	if r == nil {
		r = &RaceRec{Kind: kind, A: a, B: b, ThA: tha, ThB: thb}
		RaceLog[k] = r
	}
	r.Count++
}

func raceAccess(p unsafe.Pointer, pos string, write bool, isMap bool) {
	e := cur
	if e == nil || e.running == nil || e.aborting || p == nil {
		return
	}
	t := e.running
	if e.race == nil {
		e.race = map[unsafe.Pointer]*raceCell{}
	}
	RaceAccesses++
	c := e.race[p]
	if c == nil {
		c = &raceCell{}
		e.race[p] = c
	}
	t.tick()
	seen := func(tid int, clk uint32) bool { return tid == t.idx || (tid < len(t.vc) && clk <= t.vc[tid]) }
	if c.has && !seen(c.wT, c.wClk) {
		k := "read-write"
		if write {
			k = "write-write"
		}
		raceReport(k, c.wPos, c.wTh, pos, t.Name)
		if isMap && !RaceBuild {
			mapFatal(k, c.wPos, c.wTh, pos, t.Name)
		}
	}
	if write {
		for _, r := range c.rds {
			if !seen(r.t, r.clk) {
				raceReport("read-write", r.pos, r.th, pos, t.Name)
				if isMap && !RaceBuild {
					mapFatal("read-write", r.pos, r.th, pos, t.Name)
				}
			}
		}
		c.rds = c.rds[:0]
		c.has, c.wT, c.wClk, c.wPos, c.wTh = true, t.idx, t.vc[t.idx], pos, t.Name
		return
	}
	for i := range c.rds {
		if c.rds[i].t == t.idx {
			c.rds[i].clk, c.rds[i].pos = t.vc[t.idx], pos
			return
		}
	}
	c.rds = append(c.rds, raceRd{t: t.idx, clk: t.vc[t.idx], pos: pos, th: t.Name})
}

// R records a read of *p and returns p.
func R[T any](p *T, pos string) *T {
	if unsafe.Sizeof(*p) != 0 {
		if !RaceBuild && racyActive(pos) {
			racyPoint(unsafe.Pointer(p), pos)
		}
		raceAccess(unsafe.Pointer(p), pos, false, false)
	}
	return p
}

// W records a write of *p and returns p.
func W[T any](p *T, pos string) *T {
	if unsafe.Sizeof(*p) != 0 {
		if !RaceBuild && racyActive(pos) {
			racyPoint(unsafe.Pointer(p), pos)
		}
		raceAccess(unsafe.Pointer(p), pos, true, false)
	}
	return p
}

// MR records a read of map m (lookup, len, range) and returns m.
func MR[M ~map[K]V, K comparable, V any](m M, pos string) M {
	if m != nil {
		if !RaceBuild && racyActive(pos) {
			racyPoint(*(*unsafe.Pointer)(unsafe.Pointer(&m)), pos)
		}
		raceAccess(*(*unsafe.Pointer)(unsafe.Pointer(&m)), pos, false, true)
	}
	return m
}

// MW records a write of map m (store, delete) and returns m.
func MW[M ~map[K]V, K comparable, V any](m M, pos string) M {
	if m != nil {
		if !RaceBuild && racyActive(pos) {
			racyPoint(*(*unsafe.Pointer)(unsafe.Pointer(&m)), pos)
		}
		raceAccess(*(*unsafe.Pointer)(unsafe.Pointer(&m)), pos, true, true)
	}
	return m
}

// racyPoint is the scheduling point in front of an access listed in racy_sites.txt: a visible operation on an
// object standing for the address, folded into the causal hash chains (two orders of conflicting racy accesses
// are different states) but NOT into the vector clocks (a racy access orders nothing).
func racyPoint(p unsafe.Pointer, pos string) {
	e := cur
	if e == nil || e.running == nil || e.aborting || p == nil {
		return
	}
	if e.racyObj == nil {
		e.racyObj = map[unsafe.Pointer]*Obj{}
	}
	o := e.racyObj[p]
	if o == nil {
		o = &Obj{Name: "racy"}
		e.racyObj[p] = o
	}
	PointOp(&Pending{Kind: "racy " + pos, Obj: o, NoHB: true})
}
