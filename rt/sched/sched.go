// Package sched is the controlled scheduler under which the instrumented emulator runs.
//
// Exactly one thread (an instrumented goroutine or a harness actor) runs at a time. A thread runs
// until its next visible operation (Point), where the scheduler decides who continues. All
// nondeterminism - scheduling, select picks, timers, data choices - is resolved through a Strategy,
// so an execution is a pure function of its list of choices.
package sched

import (
	"fmt"
	"runtime"
	"sort"
	"strings"
	"time"
	"unsafe"
)

// Hash is a 128-bit fingerprint lane pair.
type Hash struct{ A, B uint64 }

func mix64(x uint64) uint64 {
	x ^= x >> 30
	x *= 0xbf58476d1ce4e5b9
	x ^= x >> 27
	x *= 0x94d049bb133111eb
	x ^= x >> 31
	return x
}

// Mix folds x into h.
func (h Hash) Mix(x uint64) Hash {
	return Hash{mix64(h.A ^ (x + 0x9e3779b97f4a7c15)), mix64(h.B + x*0xff51afd7ed558ccd + 0x2545f4914f6cdd1d)}
}

// MixH folds another hash into h.
func (h Hash) MixH(o Hash) Hash { return h.Mix(o.A).Mix(o.B ^ 0x5555) }

// HashString hashes a string.
func HashString(s string) Hash {
	h := Hash{0x1234567, 0x89abcdef}
	for i := 0; i < len(s); i++ {
		h = h.Mix(uint64(s[i]) + uint64(i)<<8)
	}
	return h
}

// Obj is the scheduler-visible identity of a shared object (mutex, channel, cond, ...).
// Its hash is seeded from the causal past of the thread that first touches it.
type Obj struct {
	H     Hash
	Epoch uint64
	Name  string
	VC    []uint32
}

// Stamp is a vector-clock timestamp of an observation; oracles compare stamps with HB, never by
// global step numbers (the exploration keeps one linearisation per happens-before class).
type Stamp struct {
	T  int
	VC []uint32
}

// HB reports whether observation a happens-before (or is) observation b in every linearisation of
// this execution's happens-before relation.
func HB(a, b Stamp) bool {
	if a.VC == nil || b.VC == nil {
		return false
	}
	if a.T >= len(b.VC) {
		return false
	}
	return a.VC[a.T] <= b.VC[a.T]
}

// Now returns the stamp of the running thread (ticks its own component).
func StampNow() Stamp {
	e := cur
	if e == nil || e.running == nil {
		return Stamp{}
	}
	t := e.running
	t.tick()
	return Stamp{T: t.idx, VC: append([]uint32(nil), t.vc...)}
}

func (t *Thread) tick() {
	for len(t.vc) <= t.idx {
		t.vc = append(t.vc, 0)
	}
	t.vc[t.idx]++
}

func joinVC(dst, src []uint32) []uint32 {
	for len(dst) < len(src) {
		dst = append(dst, 0)
	}
	for i, v := range src {
		if v > dst[i] {
			dst[i] = v
		}
	}
	return dst
}

// sync makes the running thread's operation on o visible in both the causal hash chain and the
// vector clocks (all operations on one object are totally ordered).
func (e *Exec) sync(t *Thread, o *Obj, kind uint64) {
	e.initObj(o, t)
	t.chain = t.chain.MixH(o.H).Mix(kind)
	o.H = t.chain
	t.vc = joinVC(t.vc, o.VC)
	t.tick()
	o.VC = append(o.VC[:0], t.vc...)
}

// Thread is one controlled goroutine.
type Thread struct {
	ID      string
	idv     []int
	nspawn  int
	Name    string
	wake    chan struct{}
	pend    *Pending
	done    bool
	chain   Hash
	idHash  Hash
	idx     int
	vc      []uint32
	lastRun int
	repo    bool  // spawned by a `go` statement of the repository (not a harness / actor thread)
	held    bool  // held back by a HoldBack deviation
	heldNow int64 // virtual time of the hold
	// select / channel hand-off result storage
	Sel SelResult
	// Daemon threads do not count for anything special; informational.
	started bool
}

// SelResult carries the outcome of a completed channel wait.
type SelResult struct {
	Index int
	Val   any
	OK    bool
}

// Pending describes the visible operation a parked thread wants to perform.
type Pending struct {
	Kind      string
	Obj       *Obj
	Enabled   func() bool // nil: always enabled
	Since     int
	Completed bool // completed by a partner (rendez-vous, signal); always enabled then
	Data      any  // shim-specific (channel cases, ...)
	Idle      bool // enabled only when nothing else (no thread, no timer) is enabled
	Quiet     bool // enabled when no thread is enabled (pending timers do not count): goes before the clock
	NoHB      bool // the operation on Obj enters the causal hash chains but not the vector clocks (racy access)
	pos       string
}

// Point record of a decision.
type Point struct {
	N      int    // number of alternatives
	Chosen int    // alternative taken
	Costs  []int  // deviation cost per alternative
	Key    Hash   // state fingerprint at this point (incl. running thread)
	Desc   string // rendered alternatives (only in trace mode)
	Kind   byte   // 's' schedule, 'c' choose
}

// Strategy resolves decisions. idx is the index of the decision in this execution.
// Returning -1 prunes (ends) the execution at this point.
type Strategy interface {
	Pick(idx int, p *Point) int
}

type abortT struct{}

var abortSentinel = &abortT{}

// IsAbort reports whether a recovered value is the scheduler's unwinding sentinel.
func IsAbort(r any) bool { return r == any(abortSentinel) }

// Crash describes a panic that escaped a thread.
type Crash struct {
	Thread string
	Name   string
	Value  string
	Stack  string
}

// Status of a finished execution.
type Status int

const (
	Finished  Status = iota // root called Finish (scenario complete)
	Deadlock                // no thread and no timer enabled, Finish not called
	Crashed                 // a panic escaped a thread
	StepLimit               // horizon hit
	Pruned                  // strategy pruned the execution
)

func (s Status) String() string {
	return [...]string{"finished", "deadlock", "crashed", "steplimit", "pruned"}[s]
}

// Exec is one execution.
type Exec struct {
	wallStart    time.Time
	WallLimitHit bool
	race         map[unsafe.Pointer]*raceCell
	racyObj      map[unsafe.Pointer]*Obj
	Epoch        uint64
	threads      []*Thread
	running      *Thread
	strat        Strategy
	aborting     bool
	Steps        int
	MaxSteps     int
	Points       []Point
	status       Status
	ended        bool
	Crash        *Crash
	finished     chan struct{}
	clk          clock
	nthreads     int
	Trace        bool
	Log          []string // step log (trace mode)
	region       bool     // deviations allowed
	regionH      uint64
	Blocked      []string // threads parked at the end (names + pending kinds)
	Transitions  int
	clockThread  *Thread
	Values       map[string]any // per-execution scratch for harnesses
	KeyFn        func() Hash    // optional semantic state key supplied by the harness
	EarlyClock   int            // clock steps taken while a thread was runnable (early expiries)
	OnCrashValue func(v any)    // optional
}

var cur *Exec

// BoundAll selects the cost model: false = only preemptions and early timer expiries are deviations,
// the choice among runnable threads at a blocking point is free (fully expanded); true = every
// departure from the deterministic default scheduler (continue the running thread, else the lowest
// thread id, clock last) is a deviation. Set by Explore from Options.
var BoundAll bool

// HoldBack adds one more kind of deviation: at a scheduling point where a goroutine of the repository could
// continue it may instead be held back - it is not scheduled again until no other thread can move and no timer
// is due at the current virtual instant (virtual time never advances because of a hold). Delay
// bounding alone postpones a thread by one round per deviation; one hold lets everybody else run until they all
// wait. HoldLagNs lets it lag behind by a bounded amount of virtual time as well.
var HoldBack bool

// ExecWallLimit bounds the wall-clock time of one execution (0: none).
var ExecWallLimit = 45 * time.Second

// HoldLagNs bounds how far a held thread may lag behind in virtual time: timers due up to this long after the
// moment of the hold fire before it resumes. 0: time stands still for a hold. Oracles with time bounds must add
// the lag to their allowance.
var HoldLagNs int64

// NoEarlyClock forbids early timer expiry (the clock then only advances when no thread can run).
var NoEarlyClock bool
var epochCounter uint64

// Cur returns the execution in progress, or nil in free mode.
func Cur() *Exec { return cur }

// Active reports whether a controlled execution is in progress (and not unwinding).
func Active() bool { return cur != nil && cur.running != nil }

// Aborting reports whether the execution is unwinding its threads.
func Aborting() bool { return cur != nil && cur.aborting }

// Me returns the running thread.
func Me() *Thread {
	if cur == nil {
		return nil
	}
	return cur.running
}

func pathLess(a, b []int) bool {
	for i := 0; i < len(a) && i < len(b); i++ {
		if a[i] != b[i] {
			return a[i] < b[i]
		}
	}
	return len(a) < len(b)
}

// Run executes root under strat and returns when the execution is over and all threads are unwound.
// Package-level variables of the repository are part of the state of an execution: every Run starts from the
// values they had when the worker started (SnapshotGlobals, shallow copies). Without this a change that hoists a
// local variable to package scope would carry state from one execution into the next and the replay of a schedule
// would not reproduce it. The instrumenter generates one saver per package (RegisterGlobals).
var (
	globalSavers  []func() func()
	globalRestore []func()
)

// RegisterGlobals is called from generated init functions: save returns a function that restores what it saved.
func RegisterGlobals(save func() func()) { globalSavers = append(globalSavers, save) }

// SnapshotGlobals records the current values of all registered package-level variables.
func SnapshotGlobals() {
	globalRestore = nil
	for _, s := range globalSavers {
		globalRestore = append(globalRestore, s())
	}
}

func Run(strat Strategy, maxSteps int, trace bool, root func()) *Exec {
	for _, r := range globalRestore {
		r()
	}
	epochCounter++
	e := &Exec{wallStart: time.Now(), Epoch: epochCounter, strat: strat, MaxSteps: maxSteps, finished: make(chan struct{}), Trace: trace, region: true, Values: map[string]any{}}
	e.clk.init()
	e.clockThread = &Thread{ID: "c", idv: []int{1 << 30}, Name: "clock", idHash: HashString("c")}
	cur = e
	t := e.newThread(nil, "root", root)
	e.running = t
	t.wake <- struct{}{}
	<-e.finished
	// unwind every parked thread, one at a time
	e.aborting = true
	// children before parents (reverse id order): a parent's deferred clean-up may wait natively
	// for its children (http.Server.Close waits for Serve)
	for i := len(e.threads) - 1; i >= 0; i-- {
		th := e.threads[i]
		if !th.done {
			if th.pend != nil {
				e.Blocked = append(e.Blocked, th.Name+"@"+th.pend.Kind)
			}
			e.running = th
			th.wake <- struct{}{}
			<-e.finished
		}
	}
	e.running = nil
	cur = nil
	return e
}

func (e *Exec) Status() Status { return e.status }

func (e *Exec) newThread(parent *Thread, name string, fn func()) *Thread {
	t := &Thread{wake: make(chan struct{}, 1), Name: name}
	if parent == nil {
		t.idv = []int{0}
	} else {
		t.idv = append(append([]int{}, parent.idv...), parent.nspawn)
		parent.nspawn++
	}
	sb := strings.Builder{}
	for i, v := range t.idv {
		if i > 0 {
			sb.WriteByte('.')
		}
		fmt.Fprintf(&sb, "%d", v)
	}
	t.ID = sb.String()
	t.idHash = HashString(t.ID)
	t.chain = t.idHash
	t.idx = e.nthreads
	e.nthreads++
	if parent != nil {
		t.chain = t.chain.MixH(parent.chain)
		parent.chain = parent.chain.Mix(uint64(parent.nspawn) + 77)
		parent.tick()
		t.vc = append([]uint32(nil), parent.vc...)
	}
	t.tick()
	t.pend = &Pending{Kind: "start", Since: e.Steps}
	t.lastRun = e.Steps
	// insert keeping threads sorted by path
	i := sort.Search(len(e.threads), func(i int) bool { return pathLess(t.idv, e.threads[i].idv) })
	e.threads = append(e.threads, nil)
	copy(e.threads[i+1:], e.threads[i:])
	e.threads[i] = t
	go e.threadMain(t, fn)
	return t
}

func (e *Exec) threadMain(t *Thread, fn func()) {
	<-t.wake
	defer func() {
		r := recover()
		t.done = true
		t.pend = nil
		if e.aborting {
			// unwinding: hand control back to Run
			e.finished <- struct{}{}
			return
		}
		if r != nil && !IsAbort(r) {
			buf := make([]byte, 16384)
			n := runtime.Stack(buf, false)
			e.Crash = &Crash{Thread: t.ID, Name: t.Name, Value: fmt.Sprint(r), Stack: string(buf[:n])}
			e.end(Crashed)
			e.finished <- struct{}{}
			return
		}
		if e.ended {
			e.finished <- struct{}{}
			return
		}
		// normal exit: pass the baton
		e.schedule(t)
	}()
	if e.aborting {
		return
	}
	t.pend = nil
	t.started = true
	fn()
}

func (e *Exec) end(s Status) {
	if !e.ended {
		e.ended = true
		e.status = s
	}
}

// Go spawns a controlled thread. In free mode it runs fn synchronously... which would be wrong for
// blocking code, so free mode refuses.
func Go(name string, fn func()) *Thread {
	e := cur
	if e == nil || e.running == nil {
		panic("sched.Go outside a controlled execution: " + name)
	}
	if e.aborting {
		return nil
	}
	return e.newThread(e.running, name, fn)
}

// GoRepo is what the instrumenter turns the repository's `go` statements into: the thread is one of the
// emulator's own goroutines. Only those may be held back (sched.HoldBack): holding an actor or caller thread
// back would model a slow runtime, extension or client, whose outcome the oracles judge differently.
func GoRepo(name string, fn func()) *Thread {
	t := Go(name, fn)
	if t != nil {
		t.repo = true
	}
	return t
}

// GoFromClock spawns a thread whose parent is the clock pseudo-thread (AfterFunc bodies).
func (e *Exec) goFromClock(name string, fn func()) *Thread {
	return e.newThread(e.clockThread, name, fn)
}

// Touch folds an operation on o into the running thread's causal chain (no scheduling point).
func Touch(o *Obj, kind uint64) {
	e := cur
	if e == nil || e.running == nil {
		return
	}
	if e.aborting {
		return
	}
	e.sync(e.running, o, kind)
}

// Observe folds a read of o into the running thread's chain without modifying o.
func Observe(o *Obj) {
	e := cur
	if e == nil || e.running == nil {
		return
	}
	if e.aborting {
		return
	}
	t := e.running
	e.initObj(o, t)
	t.chain = t.chain.MixH(o.H).Mix(3)
	t.vc = joinVC(t.vc, o.VC)
}

func (e *Exec) initObj(o *Obj, t *Thread) {
	if o.Epoch != e.Epoch {
		o.Epoch = e.Epoch
		o.H = t.chain.Mix(0xabcdef)
	}
}

// Record folds an observation (a harness log append) into the observing thread's own causal chain.
// Observations are NOT totally ordered among threads: oracles must compare them with stamps (HB).
func Record(tag string) {
	e := cur
	if e == nil || e.running == nil || e.aborting {
		return
	}
	t := e.running
	t.chain = t.chain.MixH(HashString(tag))
}

// FoldValue folds a data value into the running thread's chain.
func FoldValue(x uint64) {
	e := cur
	if e == nil || e.running == nil {
		return
	}
	e.running.chain = e.running.chain.Mix(x ^ 0x77aa)
}

// Yield is a visible operation that is always enabled.
func Yield(kind string, o *Obj) { PointOp(&Pending{Kind: kind, Obj: o}) }

// Block is a visible operation enabled when cond() holds.
func Block(kind string, o *Obj, cond func() bool) {
	PointOp(&Pending{Kind: kind, Obj: o, Enabled: cond})
}

// PointOp parks the running thread at a visible operation until the scheduler resumes it.
// In free mode it returns immediately if the operation is enabled and panics otherwise.
func PointOp(p *Pending) {
	e := cur
	if e == nil || e.running == nil {
		if p.Enabled != nil && !p.Enabled() && !p.Completed {
			panic("verif: blocking operation '" + p.Kind + "' would block forever in free (unscheduled) mode")
		}
		return
	}
	if e.aborting {
		panic(abortSentinel)
	}
	t := e.running
	p.Since = e.Steps
	if e.Trace {
		p.pos = callerPos()
	}
	t.pend = p
	e.schedule(t)
	t.pend = nil
	if p.Idle || p.Quiet {
		// observing quiescence is causally after everything every thread has done so far
		for _, th := range e.threads {
			if th != t {
				t.vc = joinVC(t.vc, th.vc)
				t.chain = t.chain.MixH(th.chain)
			}
		}
		t.tick()
	}
	if p.Obj != nil && p.NoHB {
		e.initObj(p.Obj, t)
		t.chain = t.chain.MixH(p.Obj.H).Mix(HashString(p.Kind).A)
		p.Obj.H = t.chain
	} else if p.Obj != nil {
		e.sync(t, p.Obj, HashString(p.Kind).A)
	} else {
		t.chain = t.chain.Mix(HashString(p.Kind).A)
	}
}

func callerPos() string {
	pcs := make([]uintptr, 12)
	n := runtime.Callers(3, pcs)
	frames := runtime.CallersFrames(pcs[:n])
	for {
		f, more := frames.Next()
		if !strings.Contains(f.File, "/rt/") && !strings.Contains(f.File, "verifrt") {
			file := f.File
			if i := strings.LastIndex(file, "/"); i >= 0 {
				if j := strings.LastIndex(file[:i], "/"); j >= 0 {
					file = file[j+1:]
				}
			}
			return fmt.Sprintf("%s:%d", file, f.Line)
		}
		if !more {
			break
		}
	}
	return "?"
}

func (t *Thread) enabled() bool {
	if t.done || t.pend == nil || t.pend.Idle || t.pend.Quiet || t.held {
		return false
	}
	p := t.pend
	return p.Completed || p.Enabled == nil || p.Enabled()
}

// Enabled reports whether the parked thread could be scheduled now.
func (t *Thread) Enabled() bool { return t.enabled() }

// Threads returns all threads (sorted by id path).
func (e *Exec) Threads() []*Thread { return e.threads }

// Pend returns the pending operation of a parked thread.
func (t *Thread) Pend() *Pending { return t.pend }
func (t *Thread) Done() bool     { return t.done }
func (t *Thread) Chain() Hash    { return t.chain }

// fingerprint of the global state: every thread's causal chain (objects are functions of those).
func (e *Exec) fingerprint(t *Thread) Hash {
	var a, b uint64
	if e.KeyFn != nil {
		h := e.KeyFn().MixH(e.clk.hash()).Mix(e.regionH)
		if t != nil {
			h = h.MixH(t.idHash)
		}
		return h
	}
	for _, th := range e.threads {
		h := th.idHash.MixH(th.chain)
		if th.done {
			h = h.Mix(9)
		}
		a += h.A
		b += h.B
	}
	h := Hash{a, b}.MixH(e.clk.hash()).Mix(e.regionH)
	if t != nil {
		h = h.MixH(t.idHash)
	}
	return h
}

// schedule is called by thread t at a visible operation or on exit. It returns when t may proceed.
func (e *Exec) schedule(t *Thread) {
	for {
		if e.ended {
			e.park(t)
			return
		}
		e.Steps++
		if e.Steps > e.MaxSteps {
			e.end(StepLimit)
			e.finished <- struct{}{}
			e.park(t)
			return
		}
		if (e.Steps&255 == 0 || len(e.threads) > 1000) && ExecWallLimit > 0 && time.Since(e.wallStart) > ExecWallLimit {
			// one execution that takes this long (thousands of threads or timers) is given up: the search ends
			// inconclusive (capped), it is neither a violation nor an engine problem
			e.WallLimitHit = true
			e.end(StepLimit)
			e.finished <- struct{}{}
			e.park(t)
			return
		}
		// enabled set in canonical order: t first if still enabled, then ascending ids, clock last
		var en []*Thread
		tEnabled := !t.done && t.enabled()
		if tEnabled {
			en = append(en, t)
		}
		for _, th := range e.threads {
			if th != t && th.enabled() {
				en = append(en, th)
			}
		}
		if BoundAll && len(en) > 2 {
			// round-robin default order (delay bounding): the thread that has waited longest goes first;
			// a thread passed over by a deviation moves to the back of the queue (below)
			rest := en
			if tEnabled {
				rest = en[1:]
			}
			sort.SliceStable(rest, func(i, j int) bool { return rest[i].lastRun < rest[j].lastRun })
		}
		if len(en) == 0 {
			// no thread can move: a thread that was held back resumes (oldest hold first) once a timer has fired
			// since, or if there is no timer to wait for
			for _, th := range e.threads {
				if !th.held || th.done {
					continue
				}
				if e.clk.dueBy(th.heldNow + HoldLagNs) {
					continue // timers due within the allowed lag go first: the held thread is slower than they are
				}
				th.held = false
				if th.enabled() {
					en = append(en, th)
					break
				}
			}
		}
		if len(en) == 0 {
			// no thread can move: a thread waiting for quietness goes before the clock
			for _, th := range e.threads {
				if !th.done && th.pend != nil && th.pend.Quiet {
					en = append(en, th)
					break
				}
			}
		}
		nThreads := len(en)
		clockOK := e.clk.pending()
		if clockOK {
			en = append(en, e.clockThread)
		}
		if len(en) == 0 {
			// quiescent: wake the first thread waiting for idleness, if any
			for _, th := range e.threads {
				if !th.done && th.pend != nil && th.pend.Idle {
					en = append(en, th)
					break
				}
			}
		}
		if len(en) == 0 {
			e.end(Deadlock)
			e.finished <- struct{}{}
			e.park(t)
			return
		}
		choice := 0
		if len(en) > 1 {
			p := Point{N: len(en), Costs: make([]int, len(en)), Kind: 's'}
			if HoldBack && tEnabled && e.region && t.repo {
				// one more alternative: hold the running thread back (index len(en))
				p.N++
				p.Costs = append(p.Costs, 1)
			}
			for i := range en {
				switch {
				case en[i] == e.clockThread:
					if nThreads > 0 {
						p.Costs[i] = 1 // early expiry
						if NoEarlyClock {
							p.Costs[i] = 1 << 20
						}
					}
				case tEnabled && i > 0:
					p.Costs[i] = 1 // preemption
				case BoundAll && i > 0:
					p.Costs[i] = 1 // departure from the deterministic default order at a blocking point
				}
				if !e.region && p.Costs[i] > 0 {
					p.Costs[i] = 1 << 20
				}
			}
			p.Key = e.fingerprint(t).Mix(uint64(len(en)))
			for _, th := range e.threads {
				if th.held {
					p.Key = p.Key.Mix(th.idHash.A ^ 0x4e1d)
					p.Key = p.Key.Mix(uint64(th.heldNow))
				}
			}
			if BoundAll {
				// the queue order is scheduler state: it decides the default continuation
				for _, th := range en {
					p.Key = p.Key.Mix(th.idHash.A)
				}
			}
			if e.Trace {
				var sb strings.Builder
				for i, th := range en {
					if i > 0 {
						sb.WriteString(" | ")
					}
					k := "clock"
					if th.pend != nil {
						k = th.pend.Kind + "@" + th.pend.pos
					}
					fmt.Fprintf(&sb, "%s(%s):%s", th.Name, th.ID, k)
				}
				p.Desc = sb.String()
			}
			choice = e.strat.Pick(len(e.Points), &p)
			if choice < 0 {
				e.Points = append(e.Points, p)
				e.end(Pruned)
				e.finished <- struct{}{}
				e.park(t)
				return
			}
			if choice >= p.N {
				panic(fmt.Sprintf("verif: replay divergence: choice %d of %d at decision %d", choice, p.N, len(e.Points)))
			}
			p.Chosen = choice
			e.Points = append(e.Points, p)
			if choice == len(en) {
				// hold back the running thread and decide again without it
				t.held, t.heldNow = true, e.clk.now
				if e.Trace {
					e.Log = append(e.Log, fmt.Sprintf("%5d t=%-9d %-28s HELD BACK at %s", e.Steps, e.clk.now, t.Name+"("+t.ID+")", t.pend.Kind+" @"+t.pend.pos))
				}
				continue
			}
		}
		next := en[choice]
		if next == e.clockThread {
			if nThreads > 0 {
				e.EarlyClock++
			}
			e.Transitions++
			e.clk.step(e)
			if e.ended {
				e.finished <- struct{}{}
				e.park(t)
				return
			}
			continue
		}
		e.Transitions++
		if e.Trace {
			k := "?"
			if next.pend != nil {
				k = next.pend.Kind + " @" + next.pend.pos
			}
			e.Log = append(e.Log, fmt.Sprintf("%5d t=%-9d %-28s %s", e.Steps, e.clk.now, next.Name+"("+next.ID+")", k))
		}
		if next == t {
			return
		}
		if BoundAll {
			// threads passed over move to the back of the round-robin queue, and so does the one switched away from
			for i := 0; i < choice; i++ {
				if en[i] != e.clockThread {
					en[i].lastRun = e.Steps
				}
			}
			t.lastRun = e.Steps
		}
		e.running = next
		next.wake <- struct{}{}
		e.park(t)
		return
	}
}

// park blocks thread t until it is resumed (or exits the goroutine if t is done).
func (e *Exec) park(t *Thread) {
	if t.done {
		return
	}
	<-t.wake
	if e.aborting {
		panic(abortSentinel)
	}
}

// Choose is a free data choice among n alternatives (n >= 1).
func Choose(n int, what string) int {
	e := cur
	if e == nil || e.running == nil {
		return 0
	}
	if e.aborting {
		panic(abortSentinel)
	}
	if n <= 1 {
		return 0
	}
	t := e.running
	p := Point{N: n, Costs: make([]int, n), Kind: 'c'}
	p.Key = e.fingerprint(t).Mix(uint64(n) + 1000).MixH(HashString(what))
	if e.Trace {
		p.Desc = "choose " + what
	}
	c := e.strat.Pick(len(e.Points), &p)
	if c < 0 {
		e.Points = append(e.Points, p)
		e.end(Pruned)
		// park forever (until unwound)
		t.pend = &Pending{Kind: "pruned", Enabled: func() bool { return false }}
		e.finished <- struct{}{}
		e.park(t)
		return 0
	}
	if c >= n {
		panic(fmt.Sprintf("verif: replay divergence: choose %d of %d (%s)", c, n, what))
	}
	p.Chosen = c
	e.Points = append(e.Points, p)
	t.chain = t.chain.Mix(uint64(c) + 31337)
	if e.Trace {
		e.Log = append(e.Log, fmt.Sprintf("%5d t=%-9d %-28s choose %s -> %d/%d", e.Steps, e.clk.now, t.Name+"("+t.ID+")", what, c, n))
	}
	return c
}

// Finish ends the execution successfully (called by the scenario when it is complete).
func Finish() {
	e := cur
	if e == nil || e.running == nil {
		return
	}
	if e.aborting {
		panic(abortSentinel)
	}
	e.end(Finished)
	t := e.running
	t.pend = &Pending{Kind: "finished", Enabled: func() bool { return false }}
	e.finished <- struct{}{}
	e.park(t)
}

// Join blocks until thread th has exited.
func Join(th *Thread) {
	if th == nil {
		return
	}
	Block("join", nil, func() bool { return th.done })
	if cur != nil && cur.running != nil && !cur.aborting {
		cur.running.chain = cur.running.chain.MixH(th.chain)
		cur.running.vc = joinVC(cur.running.vc, th.vc)
	}
}

// Region switches deviation allowance on or off (free choices stay fully expanded).
func Region(on bool) {
	e := cur
	if e == nil {
		return
	}
	e.region = on
	if on {
		e.regionH = 0
	} else {
		e.regionH = 0x5eed
	}
}

// Logf appends to the step log in trace mode.
func Logf(format string, args ...any) {
	e := cur
	if e == nil || !e.Trace {
		return
	}
	name := "-"
	if e.running != nil {
		name = e.running.Name + "(" + e.running.ID + ")"
	}
	e.Log = append(e.Log, fmt.Sprintf("      t=%-9d %-28s   . %s", e.clk.now, name, fmt.Sprintf(format, args...)))
}

// StepNo returns the global step counter (used as a sequence number by recorders).
func StepNo() int {
	if cur == nil {
		return 0
	}
	return cur.Steps
}

// WaitIdle parks the thread until no other thread and no timer is enabled (quiescence).
func WaitIdle() { PointOp(&Pending{Kind: "idle", Idle: true}) }

// SetKeyFn installs a semantic state key for the current execution.
func SetKeyFn(f func() Hash) {
	if cur != nil {
		cur.KeyFn = f
	}
}

// Absorb makes the running thread causally dependent on a parked partner thread (rendez-vous: the
// acting side takes the value / the hand-shake from the side that was already waiting).
func Absorb(p *Thread) {
	e := cur
	if e == nil || e.running == nil || e.aborting || p == nil {
		return
	}
	t := e.running
	t.chain = t.chain.MixH(p.chain).Mix(0xab50)
	t.vc = joinVC(t.vc, p.vc)
}

// WaitQuiet parks the thread until no other thread is enabled; pending timers are left alone (virtual
// time does not advance while somebody waits for quietness).
func WaitQuiet() { PointOp(&Pending{Kind: "quiet", Quiet: true}) }
