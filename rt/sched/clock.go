package sched

import (
	"fmt"
	"sort"
)

// Timer is an entry of the virtual deadline queue.
type Timer struct {
	At      int64
	seq     int
	Fire    func() // runs inline in scheduler context: must not block
	stopped bool
	fired   bool
	Name    string
}

type clock struct {
	now    int64
	timers []*Timer
	obj    Obj
	seq    int
}

func (c *clock) init() { c.obj.H = HashString("clock") }

func (c *clock) pending() bool {
	for _, t := range c.timers {
		if !t.stopped && !t.fired {
			return true
		}
	}
	return false
}

// NowNs returns virtual nanoseconds since the start of the execution. It folds the clock state into
// the reader's causal chain: a timestamp taken before or after a timer fired is a different state.
func NowNs() int64 {
	e := cur
	if e == nil {
		return freeNow
	}
	if e.running != nil && !e.aborting {
		e.running.chain = e.running.chain.MixH(e.clk.obj.H).Mix(uint64(e.clk.now))
	}
	return e.clk.now
}

// freeNow is the clock value in free (unscheduled) mode; tests may advance it.
var freeNow int64

// AdvanceFree advances the free-mode clock.
func AdvanceFree(d int64) { freeNow += d }

// AddTimer registers a timer firing at virtual time at (ns). fire runs inline and must not block.
func AddTimer(at int64, name string, fire func()) *Timer {
	e := cur
	t := &Timer{At: at, Fire: fire, Name: name}
	if e == nil {
		// free mode: timers never fire
		return t
	}
	e.clk.seq++
	t.seq = e.clk.seq
	e.clk.timers = append(e.clk.timers, t)
	if e.running != nil {
		e.running.chain = e.running.chain.Mix(uint64(at) + 0x71)
		// creation of a timer changes the clock object (visible to the scheduler)
		e.clk.obj.H = e.clk.obj.H.MixH(e.running.chain)
	}
	return t
}

// Stop cancels the timer; it reports whether the timer was still pending.
func (t *Timer) Stop() bool {
	was := !t.stopped && !t.fired
	t.stopped = true
	if e := cur; e != nil && e.running != nil && was {
		e.running.chain = e.running.chain.Mix(uint64(t.At) + 0x72)
		e.clk.obj.H = e.clk.obj.H.MixH(e.running.chain)
	}
	return was
}

// Fired reports whether the timer has fired.
func (t *Timer) Fired() bool { return t.fired }

func (c *clock) step(e *Exec) {
	// compact
	live := c.timers[:0]
	for _, t := range c.timers {
		if !t.stopped && !t.fired {
			live = append(live, t)
		}
	}
	c.timers = live
	if len(live) == 0 {
		return
	}
	sort.SliceStable(live, func(i, j int) bool {
		if live[i].At != live[j].At {
			return live[i].At < live[j].At
		}
		return live[i].seq < live[j].seq
	})
	n := 1
	for n < len(live) && live[n].At == live[0].At {
		n++
	}
	k := 0
	if n > 1 {
		k = e.chooseRaw(n, "timer-tie")
		if k < 0 {
			return
		}
	}
	t := live[k]
	if t.At > c.now {
		c.now = t.At
	}
	t.fired = true
	c.obj.H = c.obj.H.Mix(uint64(t.At)).MixH(HashString(t.Name))
	if e.Trace {
		e.Log = append(e.Log, fmt.Sprintf("%5d t=%-9d %-28s fire %s", e.Steps, c.now, "clock", t.Name))
	}
	t.Fire()
}

// chooseRaw is a free choice taken in scheduler context (no thread chain involved).
func (e *Exec) chooseRaw(n int, what string) int {
	p := Point{N: n, Costs: make([]int, n), Kind: 'c'}
	p.Key = e.fingerprint(nil).Mix(uint64(n) + 2000).MixH(HashString(what))
	if e.Trace {
		p.Desc = "choose " + what
	}
	c := e.strat.Pick(len(e.Points), &p)
	if c < 0 {
		e.Points = append(e.Points, p)
		e.end(Pruned)
		return -1
	}
	if c >= n {
		panic(fmt.Sprintf("verif: replay divergence: choose %d of %d (%s)", c, n, what))
	}
	p.Chosen = c
	e.Points = append(e.Points, p)
	e.clk.obj.H = e.clk.obj.H.Mix(uint64(c) + 4242)
	return c
}

// SpawnFromTimer starts a thread from a timer's Fire function.
func SpawnFromTimer(name string, fn func()) {
	e := cur
	if e == nil || e.aborting {
		return
	}
	e.goFromClock(name, fn)
}
