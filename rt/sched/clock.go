package sched

import (
	"fmt"
	"sort"
)

// Timer is an entry of the virtual deadline queue.
type Timer struct {
	At      int64
	seq     int
	Fire    func() // runs inline in scheduler context: must not block
	stopped bool
	fired   bool
	Name    string
	h       Hash
	vc      []uint32
}

type clock struct {
	now    int64
	timers []*Timer
	extra  Hash
	seq    int
	firing *Timer // timer whose Fire function is running (scheduler context)
	fires  int    // number of timers fired so far
}

func (c *clock) init() { c.extra = HashString("clock") }

// hash of the clock state: virtual time and the set of live timers (independent of creation order).
func (c *clock) hash() Hash {
	var a, b uint64
	for _, t := range c.timers {
		if !t.stopped && !t.fired {
			a += t.h.A
			b += t.h.B
		}
	}
	return Hash{a, b}.Mix(uint64(c.now)).MixH(c.extra)
}

func (c *clock) pending() bool {
	for _, t := range c.timers {
		if !t.stopped && !t.fired {
			return true
		}
	}
	return false
}

// NowNs returns virtual nanoseconds since the start of the execution. It folds the clock state into
// the reader's causal chain: a timestamp taken before or after a timer fired is a different state.
func NowNs() int64 {
	e := cur
	if e == nil {
		return freeNow
	}
	if e.running != nil && !e.aborting {
		e.running.chain = e.running.chain.Mix(uint64(e.clk.now) + 0x70)
	}
	return e.clk.now
}

// freeNow is the clock value in free (unscheduled) mode; tests may advance it.
var freeNow int64

// AdvanceFree advances the free-mode clock.
func AdvanceFree(d int64) { freeNow += d }

// AddTimer registers a timer firing at virtual time at (ns). fire runs inline and must not block.
func AddTimer(at int64, name string, fire func()) *Timer {
	e := cur
	t := &Timer{At: at, Fire: fire, Name: name}
	if e == nil {
		// free mode: timers never fire
		return t
	}
	e.clk.seq++
	t.seq = e.clk.seq
	e.clk.timers = append(e.clk.timers, t)
	t.h = HashString(name).Mix(uint64(at))
	if e.running != nil && !e.aborting {
		e.running.chain = e.running.chain.Mix(uint64(at) + 0x71)
		t.h = t.h.MixH(e.running.chain)
		e.running.tick()
		t.vc = append([]uint32(nil), e.running.vc...)
	}
	return t
}

// Stop cancels the timer; it reports whether the timer was still pending.
func (t *Timer) Stop() bool {
	was := !t.stopped && !t.fired
	t.stopped = true
	if e := cur; e != nil && e.running != nil && was && !e.aborting {
		e.running.chain = e.running.chain.Mix(uint64(t.At) + 0x72)
	}
	return was
}

// Fired reports whether the timer has fired.
func (t *Timer) Fired() bool { return t.fired }

// dueBy reports whether a live timer is due at or before virtual time at.
func (c *clock) dueBy(at int64) bool {
	for _, t := range c.timers {
		if !t.stopped && !t.fired && t.At <= at {
			return true
		}
	}
	return false
}

func (c *clock) step(e *Exec) {
	// compact
	live := c.timers[:0]
	for _, t := range c.timers {
		if !t.stopped && !t.fired {
			live = append(live, t)
		}
	}
	c.timers = live
	if len(live) == 0 {
		return
	}
	sort.SliceStable(live, func(i, j int) bool {
		if live[i].At != live[j].At {
			return live[i].At < live[j].At
		}
		return live[i].seq < live[j].seq
	})
	n := 1
	for n < len(live) && live[n].At == live[0].At {
		n++
	}
	k := 0
	if n > 1 {
		k = e.chooseRaw(n, "timer-tie")
		if k < 0 {
			return
		}
	}
	t := live[k]
	if t.At > c.now {
		c.now = t.At
	}
	t.fired = true
	c.fires++
	c.firing = t
	if e.Trace {
		e.Log = append(e.Log, fmt.Sprintf("%5d t=%-9d %-28s fire %s", e.Steps, c.now, "clock", t.Name))
	}
	t.Fire()
	c.firing = nil
}

// TouchFromTimer marks o as modified by the timer that is firing (scheduler context): the effect
// carries the causal past of the timer's creator and the new clock value.
func TouchFromTimer(o *Obj) {
	e := cur
	if e == nil {
		return
	}
	if o.Epoch != e.Epoch {
		o.Epoch = e.Epoch
		o.H = HashString("timer-made")
		o.VC = nil
	}
	o.H = o.H.Mix(uint64(e.clk.now) + 0x99)
	if t := e.clk.firing; t != nil {
		o.H = o.H.MixH(t.h)
		o.VC = joinVC(o.VC, t.vc)
	}
}

// chooseRaw is a free choice taken in scheduler context (no thread chain involved).
func (e *Exec) chooseRaw(n int, what string) int {
	p := Point{N: n, Costs: make([]int, n), Kind: 'c'}
	p.Key = e.fingerprint(nil).Mix(uint64(n) + 2000).MixH(HashString(what))
	if e.Trace {
		p.Desc = "choose " + what
	}
	c := e.strat.Pick(len(e.Points), &p)
	if c < 0 {
		e.Points = append(e.Points, p)
		e.end(Pruned)
		return -1
	}
	if c >= n {
		panic(fmt.Sprintf("verif: replay divergence: choose %d of %d (%s)", c, n, what))
	}
	p.Chosen = c
	e.Points = append(e.Points, p)
	e.clk.extra = e.clk.extra.Mix(uint64(c) + 4242)
	return c
}

// SpawnFromTimer starts a thread from a timer's Fire function.
func SpawnFromTimer(name string, fn func()) {
	e := cur
	if e == nil || e.aborting {
		return
	}
	e.goFromClock(name, fn)
}

// InTimer reports whether a timer's Fire function is running (scheduler context).
func InTimer() bool { return cur != nil && cur.clk.firing != nil }
