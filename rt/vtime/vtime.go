// Package vtime replaces package time for instrumented code with a virtual clock owned by the
// scheduler: every timer, ticker, sleep and deadline is an entry in the scheduler's deadline queue.
package vtime

import (
	"time"

	"go.amzn.com/verifrt/sched"
	"go.amzn.com/verifrt/vchan"
)

type (
	Time       = time.Time
	Duration   = time.Duration
	Month      = time.Month
	Weekday    = time.Weekday
	Location   = time.Location
	ParseError = time.ParseError
)

const (
	Nanosecond  = time.Nanosecond
	Microsecond = time.Microsecond
	Millisecond = time.Millisecond
	Second      = time.Second
	Minute      = time.Minute
	Hour        = time.Hour

	Layout      = time.Layout
	ANSIC       = time.ANSIC
	UnixDate    = time.UnixDate
	RubyDate    = time.RubyDate
	RFC822      = time.RFC822
	RFC822Z     = time.RFC822Z
	RFC850      = time.RFC850
	RFC1123     = time.RFC1123
	RFC1123Z    = time.RFC1123Z
	RFC3339     = time.RFC3339
	RFC3339Nano = time.RFC3339Nano
	Kitchen     = time.Kitchen
	Stamp       = time.Stamp
	StampMilli  = time.StampMilli
	StampMicro  = time.StampMicro
	StampNano   = time.StampNano
	DateTime    = time.DateTime
	DateOnly    = time.DateOnly
	TimeOnly    = time.TimeOnly

	January   = time.January
	February  = time.February
	March     = time.March
	April     = time.April
	May       = time.May
	June      = time.June
	July      = time.July
	August    = time.August
	September = time.September
	October   = time.October
	November  = time.November
	December  = time.December

	Sunday    = time.Sunday
	Monday    = time.Monday
	Tuesday   = time.Tuesday
	Wednesday = time.Wednesday
	Thursday  = time.Thursday
	Friday    = time.Friday
	Saturday  = time.Saturday
)

var (
	UTC   = time.UTC
	Local = time.Local
)

func Unix(sec, nsec int64) Time                   { return time.Unix(sec, nsec) }
func UnixMilli(ms int64) Time                     { return time.UnixMilli(ms) }
func UnixMicro(us int64) Time                     { return time.UnixMicro(us) }
func Parse(layout, value string) (Time, error)    { return time.Parse(layout, value) }
func ParseDuration(s string) (Duration, error)    { return time.ParseDuration(s) }
func FixedZone(name string, offset int) *Location { return time.FixedZone(name, offset) }
func LoadLocation(name string) (*Location, error) { return time.LoadLocation(name) }
func ParseInLocation(l, v string, loc *Location) (Time, error) {
	return time.ParseInLocation(l, v, loc)
}
func Date(y int, m Month, d, h, mi, s, ns int, loc *Location) Time {
	return time.Date(y, m, d, h, mi, s, ns, loc)
}

// BaseEpochNs is the wall-clock reading at virtual time 0 (2024-01-01T00:00:00Z).
const BaseEpochNs int64 = 1704067200 * 1e9

// MonoBaseNs is the monotonic reading at virtual time 0.
const MonoBaseNs int64 = 1000 * 1e9

func Now() Time              { return time.Unix(0, BaseEpochNs+sched.NowNs()) }
func Since(t Time) Duration  { return Now().Sub(t) }
func Until(t Time) Duration  { return t.Sub(Now()) }
func Mono() int64            { return MonoBaseNs + sched.NowNs() }
func virtualOf(t Time) int64 { return t.UnixNano() - BaseEpochNs }

// VirtualOf converts a wall-clock time to virtual nanoseconds.
func VirtualOf(t Time) int64 { return virtualOf(t) }

// Sleep parks the thread until the virtual clock has advanced by d.
func Sleep(d Duration) {
	if d <= 0 {
		sched.Yield("Sleep0", nil)
		return
	}
	if !sched.Active() {
		sched.AdvanceFree(int64(d))
		return
	}
	woke := false
	sched.AddTimer(sched.NowNs()+int64(d), "sleep", func() { woke = true })
	sched.Block("Sleep", nil, func() bool { return woke })
}

// Timer mirrors time.Timer.
type Timer struct {
	C  <-chan Time
	c  chan Time
	t  *sched.Timer
	fn func()
}

func (t *Timer) arm(d Duration) {
	at := sched.NowNs() + int64(d)
	if t.fn != nil {
		fn := t.fn
		t.t = sched.AddTimer(at, "AfterFunc", func() { sched.SpawnFromTimer("afterfunc", fn) })
		return
	}
	c := t.c
	t.t = sched.AddTimer(at, "timer", func() { vchan.Offer(c, time.Unix(0, BaseEpochNs+at)) })
}

func NewTimer(d Duration) *Timer {
	c := make(chan Time, 1)
	t := &Timer{C: c, c: c}
	t.arm(d)
	return t
}

func AfterFunc(d Duration, f func()) *Timer {
	t := &Timer{fn: f}
	t.arm(d)
	return t
}

func After(d Duration) <-chan Time { return NewTimer(d).C }

func (t *Timer) Stop() bool {
	if t.t == nil {
		return false
	}
	return t.t.Stop()
}

func (t *Timer) Reset(d Duration) bool {
	was := t.Stop()
	t.arm(d)
	return was
}

// Ticker mirrors time.Ticker (ticks are dropped when the buffer is full, as in Go).
type Ticker struct {
	C       <-chan Time
	c       chan Time
	d       Duration
	t       *sched.Timer
	stopped bool
}

func (t *Ticker) arm() {
	at := sched.NowNs() + int64(t.d)
	t.t = sched.AddTimer(at, "ticker", func() {
		vchan.Offer(t.c, time.Unix(0, BaseEpochNs+at))
		if !t.stopped {
			t.arm()
		}
	})
}

func NewTicker(d Duration) *Ticker {
	if d <= 0 {
		panic("non-positive interval for NewTicker")
	}
	c := make(chan Time, 1)
	t := &Ticker{C: c, c: c, d: d}
	t.arm()
	return t
}

func (t *Ticker) Stop() {
	t.stopped = true
	if t.t != nil {
		t.t.Stop()
	}
}

func (t *Ticker) Reset(d Duration) {
	t.Stop()
	t.stopped = false
	t.d = d
	t.arm()
}

func Tick(d Duration) <-chan Time {
	if d <= 0 {
		return nil
	}
	return NewTicker(d).C
}
