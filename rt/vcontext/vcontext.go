// Package vcontext replaces package context for instrumented code: cancellation closes a channel
// the scheduler knows, deadlines are entries of the virtual clock.
package vcontext

import (
	"context"
	"time"

	"go.amzn.com/verifrt/sched"
	"go.amzn.com/verifrt/vchan"
	"go.amzn.com/verifrt/vtime"
)

type (
	Context         = context.Context
	CancelFunc      = context.CancelFunc
	CancelCauseFunc = context.CancelCauseFunc
)

var (
	Canceled         = context.Canceled
	DeadlineExceeded = context.DeadlineExceeded
)

func Background() Context { return context.Background() }
func TODO() Context       { return context.TODO() }

func WithValue(parent Context, key, val any) Context { return context.WithValue(parent, key, val) }
func WithoutCancel(parent Context) Context           { return context.WithoutCancel(parent) }
func Cause(c Context) error                          { return c.Err() }

type keyT int

var vctxKey keyT

type vctx struct {
	parent   Context
	done     chan struct{}
	err      error
	children map[*vctx]struct{}
	deadline time.Time
	hasDL    bool
	timer    *sched.Timer
	obj      sched.Obj
	pv       *vctx
}

func (c *vctx) Deadline() (time.Time, bool) {
	if c.hasDL {
		return c.deadline, true
	}
	return c.parent.Deadline()
}
func (c *vctx) Done() <-chan struct{} { return c.done }
func (c *vctx) Err() error {
	sched.Observe(&c.obj)
	return c.err
}
func (c *vctx) Value(key any) any {
	if key == any(&vctxKey) {
		return c
	}
	return c.parent.Value(key)
}

func (c *vctx) cancel(err error, fromThread bool) {
	if c.err != nil {
		return
	}
	if fromThread {
		if sched.Aborting() {
			return
		}
		sched.Yield("ctx.cancel", &c.obj)
		if c.err != nil {
			return
		}
	}
	c.doCancel(err)
}

func (c *vctx) doCancel(err error) {
	if c.err != nil {
		return
	}
	c.err = err
	vchan.CloseRaw(c.done)
	if c.timer != nil {
		c.timer.Stop()
	}
	for ch := range c.children {
		ch.doCancel(err)
	}
	c.children = nil
	if c.pv != nil && c.pv.children != nil {
		delete(c.pv.children, c)
	}
}

func newCtx(parent Context) *vctx {
	if parent == nil {
		panic("cannot create context from nil parent")
	}
	c := &vctx{parent: parent, done: make(chan struct{})}
	if pv, ok := parent.Value(&vctxKey).(*vctx); ok {
		if pv.err != nil {
			c.err = pv.err
			vchan.CloseRaw(c.done)
		} else {
			if pv.children == nil {
				pv.children = map[*vctx]struct{}{}
			}
			pv.children[c] = struct{}{}
			c.pv = pv
		}
	} else if parent.Done() != nil {
		panic("verif: context derived from a cancellable context the scheduler does not own")
	}
	return c
}

func WithCancel(parent Context) (Context, CancelFunc) {
	c := newCtx(parent)
	return c, func() { c.cancel(context.Canceled, true) }
}

func WithCancelCause(parent Context) (Context, CancelCauseFunc) {
	c := newCtx(parent)
	return c, func(cause error) { c.cancel(context.Canceled, true) }
}

func WithDeadline(parent Context, d time.Time) (Context, CancelFunc) {
	if cur, ok := parent.Deadline(); ok && cur.Before(d) {
		return WithCancel(parent)
	}
	c := newCtx(parent)
	c.deadline, c.hasDL = d, true
	if c.err == nil {
		at := vtime.VirtualOf(d)
		if at <= sched.NowNs() {
			c.doCancel(context.DeadlineExceeded)
		} else {
			c.timer = sched.AddTimer(at, "ctx.deadline", func() { c.doCancel(context.DeadlineExceeded) })
		}
	}
	return c, func() { c.cancel(context.Canceled, true) }
}

func WithTimeout(parent Context, d time.Duration) (Context, CancelFunc) {
	return WithDeadline(parent, vtime.Now().Add(d))
}

// AfterFunc mirrors context.AfterFunc for contexts owned by the scheduler.
func AfterFunc(ctx Context, f func()) (stop func() bool) {
	stopped := false
	sched.Go("ctx.AfterFunc", func() {
		vchan.Recv(ctx.Done())
		if !stopped {
			f()
		}
	})
	return func() bool { was := !stopped; stopped = true; return was }
}
