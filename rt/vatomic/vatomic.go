// Package vatomic replaces sync/atomic for instrumented code: each operation is a visible step.
package vatomic

import (
	"unsafe"

	"go.amzn.com/verifrt/sched"
)

var objs = map[unsafe.Pointer]*sched.Obj{}
var objsEpoch uint64

func objFor(p unsafe.Pointer) *sched.Obj {
	e := sched.Cur()
	if e == nil {
		return &sched.Obj{}
	}
	if objsEpoch != e.Epoch {
		objs = map[unsafe.Pointer]*sched.Obj{}
		objsEpoch = e.Epoch
	}
	o := objs[p]
	if o == nil {
		o = &sched.Obj{}
		objs[p] = o
	}
	return o
}

// Value mirrors atomic.Value.
type Value struct {
	v any
}

func (v *Value) Load() any { sched.Yield("atomic.Load", objFor(unsafe.Pointer(v))); return v.v }
func (v *Value) Store(x any) {
	if x == nil {
		panic("sync/atomic: store of nil value into Value")
	}
	sched.Yield("atomic.Store", objFor(unsafe.Pointer(v)))
	v.v = x
}
func (v *Value) Swap(x any) any {
	sched.Yield("atomic.Swap", objFor(unsafe.Pointer(v)))
	o := v.v
	v.v = x
	return o
}
func (v *Value) CompareAndSwap(old, new any) bool {
	sched.Yield("atomic.CAS", objFor(unsafe.Pointer(v)))
	if v.v == old {
		v.v = new
		return true
	}
	return false
}

type integer interface {
	~int32 | ~int64 | ~uint32 | ~uint64 | ~uintptr
}

func load[T any](p *T) T     { sched.Yield("atomic.Load", objFor(unsafe.Pointer(p))); return *p }
func store[T any](p *T, v T) { sched.Yield("atomic.Store", objFor(unsafe.Pointer(p))); *p = v }
func add[T integer](p *T, d T) T {
	sched.Yield("atomic.Add", objFor(unsafe.Pointer(p)))
	*p += d
	return *p
}
func swap[T any](p *T, v T) T {
	sched.Yield("atomic.Swap", objFor(unsafe.Pointer(p)))
	o := *p
	*p = v
	return o
}
func cas[T comparable](p *T, o, n T) bool {
	sched.Yield("atomic.CAS", objFor(unsafe.Pointer(p)))
	if *p == o {
		*p = n
		return true
	}
	return false
}

func LoadInt32(p *int32) int32                         { return load(p) }
func LoadInt64(p *int64) int64                         { return load(p) }
func LoadUint32(p *uint32) uint32                      { return load(p) }
func LoadUint64(p *uint64) uint64                      { return load(p) }
func StoreInt32(p *int32, v int32)                     { store(p, v) }
func StoreInt64(p *int64, v int64)                     { store(p, v) }
func StoreUint32(p *uint32, v uint32)                  { store(p, v) }
func StoreUint64(p *uint64, v uint64)                  { store(p, v) }
func AddInt32(p *int32, d int32) int32                 { return add(p, d) }
func AddInt64(p *int64, d int64) int64                 { return add(p, d) }
func AddUint32(p *uint32, d uint32) uint32             { return add(p, d) }
func AddUint64(p *uint64, d uint64) uint64             { return add(p, d) }
func SwapInt32(p *int32, v int32) int32                { return swap(p, v) }
func SwapInt64(p *int64, v int64) int64                { return swap(p, v) }
func SwapUint32(p *uint32, v uint32) uint32            { return swap(p, v) }
func SwapUint64(p *uint64, v uint64) uint64            { return swap(p, v) }
func CompareAndSwapInt32(p *int32, o, n int32) bool    { return cas(p, o, n) }
func CompareAndSwapInt64(p *int64, o, n int64) bool    { return cas(p, o, n) }
func CompareAndSwapUint32(p *uint32, o, n uint32) bool { return cas(p, o, n) }
func CompareAndSwapUint64(p *uint64, o, n uint64) bool { return cas(p, o, n) }

// Typed atomics.
type Bool struct{ v bool }

func (b *Bool) Load() bool                    { return load(&b.v) }
func (b *Bool) Store(x bool)                  { store(&b.v, x) }
func (b *Bool) Swap(x bool) bool              { return swap(&b.v, x) }
func (b *Bool) CompareAndSwap(o, n bool) bool { return cas(&b.v, o, n) }

type Int32 struct{ v int32 }

func (b *Int32) Load() int32                    { return load(&b.v) }
func (b *Int32) Store(x int32)                  { store(&b.v, x) }
func (b *Int32) Add(d int32) int32              { return add(&b.v, d) }
func (b *Int32) Swap(x int32) int32             { return swap(&b.v, x) }
func (b *Int32) CompareAndSwap(o, n int32) bool { return cas(&b.v, o, n) }

type Int64 struct{ v int64 }

func (b *Int64) Load() int64                    { return load(&b.v) }
func (b *Int64) Store(x int64)                  { store(&b.v, x) }
func (b *Int64) Add(d int64) int64              { return add(&b.v, d) }
func (b *Int64) Swap(x int64) int64             { return swap(&b.v, x) }
func (b *Int64) CompareAndSwap(o, n int64) bool { return cas(&b.v, o, n) }

type Uint32 struct{ v uint32 }

func (b *Uint32) Load() uint32                    { return load(&b.v) }
func (b *Uint32) Store(x uint32)                  { store(&b.v, x) }
func (b *Uint32) Add(d uint32) uint32             { return add(&b.v, d) }
func (b *Uint32) Swap(x uint32) uint32            { return swap(&b.v, x) }
func (b *Uint32) CompareAndSwap(o, n uint32) bool { return cas(&b.v, o, n) }

type Uint64 struct{ v uint64 }

func (b *Uint64) Load() uint64                    { return load(&b.v) }
func (b *Uint64) Store(x uint64)                  { store(&b.v, x) }
func (b *Uint64) Add(d uint64) uint64             { return add(&b.v, d) }
func (b *Uint64) Swap(x uint64) uint64            { return swap(&b.v, x) }
func (b *Uint64) CompareAndSwap(o, n uint64) bool { return cas(&b.v, o, n) }

type Pointer[T any] struct{ p *T }

func (b *Pointer[T]) Load() *T                    { return load(&b.p) }
func (b *Pointer[T]) Store(x *T)                  { store(&b.p, x) }
func (b *Pointer[T]) Swap(x *T) *T                { return swap(&b.p, x) }
func (b *Pointer[T]) CompareAndSwap(o, n *T) bool { return cas(&b.p, o, n) }
