// Package vsyscall replaces package syscall in supervisor/local_supervisor.go (simulated kernel).
package vsyscall

import (
	"syscall"

	"go.amzn.com/verifrt/vexec"
)

type (
	SysProcAttr = syscall.SysProcAttr
	WaitStatus  = syscall.WaitStatus
	Signal      = syscall.Signal
	Errno       = syscall.Errno
)

const (
	SIGTERM = syscall.SIGTERM
	SIGKILL = syscall.SIGKILL
	SIGINT  = syscall.SIGINT
	SIGHUP  = syscall.SIGHUP
	SIGQUIT = syscall.SIGQUIT
	ESRCH   = syscall.ESRCH
)

func Kill(pid int, sig Signal) error { return vexec.K().Kill(pid, int(sig)) }
func Getpgid(pid int) (int, error)   { return vexec.K().Getpgid(pid) }
func CloseOnExec(fd int)             {}
