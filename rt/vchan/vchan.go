// Package vchan gives channel operations of instrumented code to the controlled scheduler.
// The native channel value stays the identity of a channel (types and APIs are untouched); its
// contents live in a side table, so no value ever travels through the native channel.
package vchan

import (
	"reflect"
	"unsafe"

	"go.amzn.com/verifrt/sched"
)

type chanState struct {
	obj    sched.Obj
	cap    int
	q      []any
	closed bool
	keep   any
}

var table = map[unsafe.Pointer]*chanState{}
var tableEpoch uint64

type box[T any] struct{ v T }

func curEpoch() uint64 {
	if e := sched.Cur(); e != nil {
		return e.Epoch
	}
	return 0
}

func lookup(p unsafe.Pointer, capacity int, keep any) *chanState {
	if p == nil {
		return nil
	}
	if ep := curEpoch(); ep != tableEpoch {
		table = map[unsafe.Pointer]*chanState{}
		tableEpoch = ep
	}
	st := table[p]
	if st == nil {
		st = &chanState{cap: capacity, keep: keep}
		table[p] = st
	}
	return st
}

func stSend[T any](c chan<- T) *chanState {
	return lookup(*(*unsafe.Pointer)(unsafe.Pointer(&c)), cap(c), c)
}
func stRecv[T any](c <-chan T) *chanState {
	return lookup(*(*unsafe.Pointer)(unsafe.Pointer(&c)), cap(c), c)
}

// Case is one communication clause of a select (or a plain send/receive).
type Case struct {
	send bool
	st   *chanState
	val  any
}

// R builds a receive case.
func R[T any](c <-chan T) Case { return Case{st: stRecv(c)} }

// S builds a send case.
func S[T any](c chan<- T, v T) Case { return Case{send: true, st: stSend(c), val: box[T]{v}} }

type chanWait struct {
	cases []Case
	owner *sched.Thread
}

func partner(st *chanState, wantSend bool, me *sched.Thread) (*sched.Thread, int) {
	e := sched.Cur()
	if e == nil {
		return nil, 0
	}
	var best *sched.Thread
	bestIdx := 0
	for _, th := range e.Threads() {
		if th == me || th.Done() {
			continue
		}
		p := th.Pend()
		if p == nil || p.Completed {
			continue
		}
		w, ok := p.Data.(*chanWait)
		if !ok {
			continue
		}
		for i, c := range w.cases {
			if c.st == st && c.send == wantSend {
				if best == nil || p.Since < best.Pend().Since {
					best, bestIdx = th, i
				}
				break
			}
		}
	}
	return best, bestIdx
}

func ready(c Case, me *sched.Thread) bool {
	st := c.st
	if st == nil {
		return false
	}
	if c.send {
		if st.closed || len(st.q) < st.cap {
			return true
		}
		p, _ := partner(st, false, me)
		return p != nil
	}
	if len(st.q) > 0 || st.closed {
		return true
	}
	p, _ := partner(st, true, me)
	return p != nil
}

// wait performs a (possibly multi-way) channel operation. It returns the index of the case that
// fired (-1 for default), and for receives the boxed value and ok flag.
func wait(kind string, cases []Case, hasDefault bool) (int, any, bool) {
	me := sched.Me()
	w := &chanWait{cases: cases, owner: me}
	var obj *sched.Obj
	for _, c := range cases {
		if c.st != nil {
			obj = &c.st.obj
			break
		}
	}
	p := &sched.Pending{Kind: kind, Obj: obj, Data: w}
	p.Enabled = func() bool {
		if hasDefault {
			return true
		}
		for _, c := range cases {
			if ready(c, me) {
				return true
			}
		}
		return false
	}
	sched.PointOp(p)
	if p.Completed && me != nil {
		return me.Sel.Index, me.Sel.Val, me.Sel.OK
	}
	var rd []int
	for i, c := range cases {
		if ready(c, me) {
			rd = append(rd, i)
		}
	}
	if len(rd) == 0 {
		if !hasDefault {
			panic("verif: channel operation resumed without a ready case")
		}
		return -1, nil, false
	}
	k := rd[0]
	if len(rd) > 1 {
		k = rd[sched.Choose(len(rd), "select")]
	}
	c := cases[k]
	st := c.st
	if c.send {
		if st.closed {
			panic("send on closed channel")
		}
		if r, idx := partner(st, false, me); r != nil && len(st.q) == 0 {
			r.Sel = sched.SelResult{Index: idx, Val: c.val, OK: true}
			r.Pend().Completed = true
			sched.Absorb(r)
			sched.Touch(&st.obj, 11)
			r.Pend().Obj = &st.obj
		} else {
			st.q = append(st.q, c.val)
			sched.Touch(&st.obj, 12)
		}
		return k, nil, false
	}
	if len(st.q) > 0 {
		v := st.q[0]
		st.q = st.q[1:]
		sched.Touch(&st.obj, 13)
		return k, v, true
	}
	if s, idx := partner(st, true, me); s != nil {
		sw := s.Pend().Data.(*chanWait)
		v := sw.cases[idx].val
		s.Sel = sched.SelResult{Index: idx}
		s.Pend().Completed = true
		sched.Absorb(s)
		sched.Touch(&st.obj, 14)
		s.Pend().Obj = &st.obj
		return k, v, true
	}
	// closed and drained
	sched.Touch(&st.obj, 15)
	return k, nil, false
}

func unbox[T any](v any, ok bool) (T, bool) {
	if !ok || v == nil {
		var z T
		return z, ok
	}
	return v.(box[T]).v, true
}

// Send is c <- v.
func Send[T any](c chan<- T, v T) {
	wait("send", []Case{S(c, v)}, false)
}

// Recv is <-c.
func Recv[T any](c <-chan T) T {
	_, v, ok := wait("recv", []Case{R(c)}, false)
	x, _ := unbox[T](v, ok)
	return x
}

// Recv2 is v, ok := <-c.
func Recv2[T any](c <-chan T) (T, bool) {
	_, v, ok := wait("recv", []Case{R(c)}, false)
	return unbox[T](v, ok)
}

// RecvOK is _, ok := <-c.
func RecvOK[T any](c <-chan T) bool {
	_, _, ok := wait("recv", []Case{R(c)}, false)
	return ok
}

// Select performs a select statement; it returns the index of the chosen case, -1 for default.
func Select(hasDefault bool, cases ...Case) int {
	k, v, ok := wait("select", cases, hasDefault)
	if me := sched.Me(); me != nil {
		me.Sel = sched.SelResult{Index: k, Val: v, OK: ok}
	} else {
		freeSel = sched.SelResult{Index: k, Val: v, OK: ok}
	}
	return k
}

var freeSel sched.SelResult

func lastSel() sched.SelResult {
	if me := sched.Me(); me != nil {
		return me.Sel
	}
	return freeSel
}

// Taken returns the value received by the case that Select just chose.
func Taken[T any](c <-chan T) T {
	s := lastSel()
	x, _ := unbox[T](s.Val, s.OK)
	return x
}

// Taken2 returns value and ok of the receive case that Select just chose.
func Taken2[T any](c <-chan T) (T, bool) {
	s := lastSel()
	return unbox[T](s.Val, s.OK)
}

// Close is close(c).
func Close[T any](c chan<- T) {
	if sched.Aborting() {
		return
	}
	st := stSend(c)
	if st == nil {
		panic("close of nil channel")
	}
	sched.Yield("close", &st.obj)
	if st.closed {
		panic("close of closed channel")
	}
	st.closed = true
}

// CloseRaw closes without a scheduling point (timer and context machinery, scheduler context).
func CloseRaw[T any](c chan<- T) {
	st := stSend(c)
	if st != nil {
		st.closed = true
		if sched.InTimer() || sched.Me() == nil {
			sched.TouchFromTimer(&st.obj)
		} else {
			sched.Touch(&st.obj, 16)
		}
	}
}

// Offer appends v to c's buffer if there is room, without a scheduling point (timer machinery).
func Offer[T any](c chan<- T, v T) bool {
	st := stSend(c)
	if st == nil || st.closed || len(st.q) >= st.cap {
		return false
	}
	st.q = append(st.q, box[T]{v})
	sched.TouchFromTimer(&st.obj)
	return true
}

func stAny(c any) *chanState {
	rv := reflect.ValueOf(c)
	if rv.Kind() != reflect.Chan {
		panic("vchan: not a channel")
	}
	if rv.IsNil() {
		return nil
	}
	return lookup(rv.UnsafePointer(), rv.Cap(), c)
}

// Len is len(c).
func Len(c any) int {
	st := stAny(c)
	if st == nil {
		return 0
	}
	sched.Observe(&st.obj)
	return len(st.q)
}

// Cap is cap(c).
func Cap(c any) int {
	return reflect.ValueOf(c).Cap()
}
