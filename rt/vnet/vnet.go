// Package vnet replaces package net in rapi/server.go: Listen returns a listener whose Accept parks
// in the scheduler; actors reach the Runtime API through its http.Handler directly.
package vnet

import (
	"errors"
	"net"
	"strconv"

	"go.amzn.com/verifrt/sched"
)

type (
	Listener = net.Listener
	Conn     = net.Conn
	TCPAddr  = net.TCPAddr
	Addr     = net.Addr
)

type fakeListener struct {
	addr   *net.TCPAddr
	closed bool
}

func (l *fakeListener) Accept() (net.Conn, error) {
	sched.Block("accept", nil, func() bool { return l.closed })
	return nil, errors.New("use of closed network connection")
}
func (l *fakeListener) Close() error   { l.closed = true; return nil }
func (l *fakeListener) Addr() net.Addr { return l.addr }

// Listened records the addresses passed to Listen in this process (for the environment oracle).
var Listened []string

func Listen(network, address string) (Listener, error) {
	host, port, err := net.SplitHostPort(address)
	if err != nil {
		return nil, err
	}
	p, err := strconv.Atoi(port)
	if err != nil {
		return nil, err
	}
	if p == 0 {
		p = 54321
	}
	Listened = append(Listened, address)
	return &fakeListener{addr: &net.TCPAddr{IP: net.ParseIP(host), Port: p}}, nil
}

func SplitHostPort(hostport string) (string, string, error) { return net.SplitHostPort(hostport) }
func JoinHostPort(host, port string) string                 { return net.JoinHostPort(host, port) }
