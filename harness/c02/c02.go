// Package c02 decides property C02: a response or error is accepted only for the request id of the
// invocation in flight and only once; stale, unknown and duplicate submissions are refused with a
// client error and have no effect on callers, on the runtime's protocol state or on later invocations.
package c02

import (
	"encoding/json"
	"fmt"
	"strings"
	"time"

	"go.amzn.com/verifh/hx"
	"go.amzn.com/verifh/stack"
	"go.amzn.com/verifrt/sched"
	"go.amzn.com/verifrt/vtime"
)

type scen struct {
	ending string // how invocation 1 ends: success | fnerror | timeout | crash | extexit
	kind   string // rogue submission: slow-response (accepted for invocation 1, body still uploading when 1 is reset) | stale-response | stale-error | older-response | unknown-response | duplicate-response | duplicate-error
	ext    bool
	bound  int
	tailMs int // slow-response: the tail of the body arrives this long after the upload began
}

func (s scen) name() string {
	if s.kind == "broken-response-then-exit" {
		return fmt.Sprintf("first-ends=success rogue=none(the runtime's response for #1 breaks off mid-body, then the runtime exits) ext=%v B=%d", s.ext, s.bound)
	}
	if s.kind == "platform-late-error" {
		return fmt.Sprintf("first-ends=crash-at-timeout rogue=none(the platform's own error report for #1 may be late) ext=%v B=%d", s.ext, s.bound)
	}
	if s.slowKind() {
		return fmt.Sprintf("first-ends=%s rogue=%s(tail after %d ms) ext=%v B=%d", s.ending, s.kind, s.tailMs, s.ext, s.bound)
	}
	return s.name0()
}

func (s scen) name0() string {
	return fmt.Sprintf("first-ends=%s rogue=%s ext=%v B=%d", s.ending, s.kind, s.ext, s.bound)
}

func echo(i int) []byte { return []byte(fmt.Sprintf(`{"inv":%d}`, i)) }

type rec struct {
	ids     []string // request ids seen by the runtimes, in delivery order
	posted  map[string]bool
	rogue   []*stack.Call
	curID   string
	curDone bool
	rogueGo bool
}

func (s scen) config(rp **rec) *stack.Config {
	cfg := &stack.Config{TimeoutSec: 3}
	if s.ending == "extexit" {
		// the runtime outlives the SIGTERM of the failure reset for a while: its own response for #1 arrives after
		// the platform has answered #1 itself (a second submission, to be refused like any other)
		cfg.RuntimeOnTerm = "ignore"
	}
	cfg.Runtime = func(rt *stack.Actor) {
		r := *rp
		for {
			n := rt.Next()
			if n.Status != 200 {
				rt.Stall()
			}
			r.ids = append(r.ids, n.ReqID)
			k := len(r.ids)
			r.curID, r.curDone = n.ReqID, false
			if s.kind == "broken-response-then-exit" && k == 2 {
				// invocation 1: a submission that is never accepted, then the process dies
				rt.ResponseBroken(n.ReqID, []byte(`{"partial":`))
				rt.Exit(1)
			}
			if s.kind == "platform-late-error" {
				switch k {
				case 2: // invocation 1: the process dies at the very moment the timeout expires (timer tie: both orders)
					rt.Sleep(3000 * 1e6)
					rt.Exit(1)
				case 3: // invocation 2 is in flight for a while, everybody waits
					rt.Sleep(500 * 1e6)
				}
			}
			if k == 1 {
				switch s.ending {
				case "timeout":
					rt.Stall()
				case "crash":
					rt.Exit(1)
				case "fnerror":
					rt.Error(n.ReqID, "Function.Boom", []byte(`{"errorMessage":"boom"}`))
					r.curDone = true
					continue
				case "fnerror-exit":
					// the runtime reports its error and dies: the platform's own failure report is then a second submission
					rt.Error(n.ReqID, "Function.Boom", []byte(`{"errorMessage":"boom"}`))
					r.curDone = true
					rt.Exit(1)
				case "extexit":
					rt.Sleep(300 * 1e6) // give the extension's exit time to land first
				}
			}
			if s.slowKind() && k == 3 {
				rt.Sleep(500 * 1e6) // invocation 2 is in flight for a while
			}
			if strings.HasPrefix(s.kind, "case-variant") && k == 3 {
				rt.Sleep(100 * 1e6) // the variant of the current id is submitted while the runtime is still working
			}
			c := rt.Response(n.ReqID, n.Body)
			r.curDone = true
			if c.Status != 202 {
				rt.Stall()
			}
		}
	}
	if s.ext || s.ending == "extexit" {
		cfg.Exts = []stack.ExtSpec{{Name: "e0", Body: func(x *stack.Actor) {
			if c := x.Register([]string{"INVOKE", "SHUTDOWN"}, ""); c.Status != 200 {
				x.Stall()
			}
			k := 0
			for {
				ev := x.ExtNext()
				if ev.Status != 200 {
					x.Stall()
				}
				if stack.EventType(ev) == "SHUTDOWN" {
					x.Exit(0)
				}
				k++
				if s.ending == "extexit" && x.Gen == 1 && k == 1 {
					x.Exit(1)
				}
			}
		}}}
	}
	return cfg
}

func (s scen) run(c *hx.Ctx) *hx.ScenarioResult {
	var r *rec
	cfg := s.config(&r)
	cleanup := cfg.Prepare()
	defer cleanup()
	body := func() {
		r = &rec{posted: map[string]bool{}}
		sched.Cur().Values["rec"] = r
		w := stack.NewWorld(cfg)
		// invocation 0 (healthy, gives an "older" id), invocation 1 (ends as the scenario says)
		sched.Region(false)
		w.Invoke(echo(0), nil)
		if s.slowKind() {
			s.slow(w, r)
			return
		}
		if s.kind == "broken-response-then-exit" {
			sched.Region(true)
			w.Invoke(echo(1), nil)
			w.Invoke(echo(2), nil)
			sched.Region(false)
			vtime.Sleep(100 * 1e6)
			w.Invoke(echo(3), nil)
			sched.Finish()
			return
		}
		if s.kind == "platform-late-error" {
			// no rogue client: the stale submission is the platform's own default error response for #1, produced by
			// a goroutine that may be held back until everybody else waits (sched.HoldBack)
			sched.Region(true)
			w.Invoke(echo(1), nil)
			w.Invoke(echo(2), nil)
			sched.Region(false)
			vtime.Sleep(100 * 1e6)
			w.Invoke(echo(3), nil)
			sched.Finish()
			return
		}
		w.Invoke(echo(1), nil)
		sched.Region(true)
		// the rogue client: any local process that kept an id; free to run at any point of invocation 2
		rogue := &stack.Actor{W: w, P: w.K.Detached("/rogue"), Name: "rogue", Gen: 1}
		older, stale := "", ""
		if len(r.ids) > 0 {
			older = r.ids[0]
		}
		if len(r.ids) > 1 {
			stale = r.ids[1]
		}
		inv2done := false
		rt := sched.Go("rogue", func() {
			defer stack.QuietExit()
			// "all timings": the submission is made after a freely chosen milestone of invocation 2 (call
			// issued / answered at any actor); deviations then move it around that milestone
			base := w.Milestone
			k := sched.Choose(14, "rogue-after-milestone")
			sched.Block("await-milestone", nil, func() bool { return w.Milestone >= base+k || inv2done })
			switch s.kind {
			case "stale-response":
				r.rogue = append(r.rogue, rogue.Response(stale, []byte(`"ROGUE"`)))
			case "stale-error":
				r.rogue = append(r.rogue, rogue.Error(stale, "Function.Rogue", []byte(`{"errorMessage":"ROGUE"}`)))
			case "older-response":
				r.rogue = append(r.rogue, rogue.Response(older, []byte(`"ROGUE"`)))
			case "unknown-response":
				r.rogue = append(r.rogue, rogue.Response("11111111-2222-3333-4444-555555555555", []byte(`"ROGUE"`)))
			case "case-variant-response", "case-variant-error":
				// the id of the invocation in flight, but not byte for byte: upper-cased
				n := len(r.ids)
				sched.Block("await-delivery-of-2", nil, func() bool { return len(r.ids) > n || inv2done })
				id := strings.ToUpper(r.curID) // (placed after invocation 2 is over: a variant of a stale id)
				if s.kind == "case-variant-response" {
					r.rogue = append(r.rogue, rogue.Response(id, []byte(`"ROGUE"`)))
				} else {
					r.rogue = append(r.rogue, rogue.Error(id, "Function.Rogue", []byte(`{"errorMessage":"ROGUE"}`)))
				}
			case "duplicate-response", "duplicate-error":
				// wait until the runtime of invocation 2 has submitted, then submit again with the same id
				n := len(r.ids)
				sched.Block("await-runtime-post", nil, func() bool { return (len(r.ids) > n && r.curDone) || inv2done })
				if s.kind == "duplicate-response" {
					r.rogue = append(r.rogue, rogue.Response(r.curID, []byte(`"ROGUE"`)))
				} else {
					r.rogue = append(r.rogue, rogue.Error(r.curID, "Function.Rogue", []byte(`{"errorMessage":"ROGUE"}`)))
				}
			}
		})
		w.Invoke(echo(2), nil)
		inv2done = true
		sched.Join(rt)
		sched.Region(false)
		vtime.Sleep(100 * 1e6)
		w.Invoke(echo(3), nil)
		sched.Finish()
	}
	return hx.ExploreScenario(c, "C02", s.name(), sched.Options{Bound: s.bound, MaxSteps: 100000, BoundAll: true, NoEarlyClock: true, HoldBack: true, HoldLagNs: 150e6}, body, s.judge)
}

// slow: a second thread of the function (a process the platform does not kill) starts submitting the response
// of invocation 1 while 1 is in flight; the tail of the body arrives only after 1 has timed out. Wherever the
// platform decides to deliver or drop that body, it must not reach invocation 2 or 3.
func (s scen) slow(w *stack.World, r *rec) {
	rogue := &stack.Actor{W: w, P: w.K.Detached("/rogue"), Name: "rogue", Gen: 1}
	sched.Region(true)
	rt := sched.Go("rogue", func() {
		defer stack.QuietExit()
		sched.Block("await-invocation-1", nil, func() bool { return len(r.ids) >= 2 })
		if s.kind == "slow-error" {
			r.rogue = append(r.rogue, rogue.ErrorSlow(r.ids[1], "Function.Rogue", []byte(`{"errorMessage":`), []byte(`"ROGUE"}`), time.Duration(s.tailMs)*time.Millisecond))
		} else {
			r.rogue = append(r.rogue, rogue.ResponseSlow(r.ids[1], []byte(`"ROG`), []byte(`UE"`), time.Duration(s.tailMs)*time.Millisecond))
		}
	})
	w.Invoke(echo(1), nil)
	w.Invoke(echo(2), nil)
	sched.Join(rt)
	sched.Region(false)
	vtime.Sleep(100 * 1e6)
	w.Invoke(echo(3), nil)
	sched.Finish()
}

func (s scen) slowKind() bool { return s.kind == "slow-response" || s.kind == "slow-error" }

func (s scen) judge(e *sched.Exec) (string, string, *sched.Failure) {
	w := stack.WorldOf(e)
	if e.Crash != nil {
		return stack.CrashFailure(e, "3")
	}
	if e.Status() != sched.Finished {
		return e.Status().String(), "", &sched.Failure{Clause: "3", Sig: "hang", Msg: "hang: " + fmt.Sprint(e.Blocked) + "\n" + w.Render(false)}
	}
	r := e.Values["rec"].(*rec)
	var fail *sched.Failure
	failf := func(clause, sig, f string, a ...any) {
		if fail == nil {
			fail = &sched.Failure{Clause: clause, Sig: sig, Msg: fmt.Sprintf(f, a...) + "\n" + w.Render(false)}
		}
	}
	var outs []string
	// (1) the rogue submission is refused with a client error
	for _, c := range r.rogue {
		var m struct {
			ErrorType string `json:"errorType"`
		}
		json.Unmarshal(c.Body, &m)
		outs = append(outs, fmt.Sprintf("rogue:%d:%s", c.Status, m.ErrorType))
		if c.Aborted {
			failf("1", "rogue-aborted:"+s.kind, "the %s submission made the handler panic: %s", s.kind, c.Panic)
		} else if c.Status == 202 && s.slowKind() {
			// it was for the invocation in flight when it was made: acceptance is not a violation by itself
		} else if c.Status == 202 {
			failf("1", "rogue-accepted:"+s.kind, "the %s submission (id %s) was accepted with 202", s.kind, c.ReqID)
		} else if c.Status != 400 && c.Status != 403 {
			failf("1", fmt.Sprintf("rogue-status-%d:%s", c.Status, s.kind), "the %s submission got status %d, expected a 4xx refusal", s.kind, c.Status)
		}
	}
	if s.kind == "broken-response-then-exit" {
		// the unaccepted submission has no effect: the caller of #1 gets what a plain runtime exit gives
		inv := w.Invokes[1]
		if inv.Status != 502 || !strings.Contains(string(inv.Body), "Runtime.ExitError") {
			failf("2", fmt.Sprintf("unaccepted-submission-changed-outcome:%d", inv.Status), "the runtime's response for invocation 1 broke off mid-body and the runtime exited: the caller got status %d body %q instead of the 502 Runtime.ExitError a plain exit gives", inv.Status, string(inv.Body))
		}
	}
	if len(r.rogue) == 0 && s.kind != "platform-late-error" && s.kind != "broken-response-then-exit" {
		failf("1", "rogue-not-run", "the rogue submission was never made")
	}
	// a submission that is not accepted is refused with a client error - by whoever makes it, the runtime's own late
	// submission included: a handler that panics answers nothing at all
	for _, c := range w.Calls {
		if c.Aborted && (c.Kind == "response" || c.Kind == "error") {
			failf("1", "submission-handler-panic:"+c.Kind, "the %s submission of %s (id %s) made the handler panic instead of being answered: %s", c.Kind, c.Actor, c.ReqID, c.Panic)
		}
	}
	// (2) no effect: invocations 2 and 3 end exactly as without the rogue submission
	for i := 2; i <= 3; i++ {
		inv := w.Invokes[i]
		outs = append(outs, fmt.Sprintf("inv%d:%d", i, inv.Status))
		if inv.Status != 200 || string(inv.Body) != string(echo(i)) {
			cls := "other"
			if strings.Contains(string(inv.Body), "ROGUE") {
				cls = "rogue-body"
			}
			failf("2", fmt.Sprintf("invocation-disturbed:%s:%d:%s", s.kind, inv.Status, cls), "invocation %d ended with status %d body %q; without the refused submission it returns its own echo", i, inv.Status, string(inv.Body))
		}
	}
	// the runtime's own submissions for invocations 2 and 3 are accepted: its protocol state is untouched
	for _, c := range w.Calls {
		if c.Actor == "runtime" && c.Kind == "response" && c.Answered >= 0 && (string(c.Sent) == string(echo(2)) || string(c.Sent) == string(echo(3))) && c.Status != 202 {
			failf("2", fmt.Sprintf("runtime-post-refused:%s:%d", s.kind, c.Status), "the runtime's own response for %s got status %d", c.Sent, c.Status)
		}
	}
	// invocation 1 itself: outcome per its ending (sanity of the scenario, not of the property)
	return strings.Join(outs, ","), w.Render(false), fail
}

func init() {
	hx.Register(&hx.Property{ID: "C02", Scenarios: func(tier string) []hx.Scenario {
		var ss []scen
		b := 1
		if tier == "thorough" {
			b = 2
		}
		for _, end := range []string{"success", "fnerror", "fnerror-exit", "timeout", "crash", "extexit"} {
			kinds := []string{"stale-response", "stale-error", "older-response", "unknown-response", "duplicate-response", "duplicate-error"}
			if end == "success" || end == "timeout" {
				kinds = append(kinds, "case-variant-response", "case-variant-error")
			}
			for _, k := range kinds {
				ss = append(ss, scen{ending: end, kind: k, bound: b})
				if tier == "thorough" && end != "extexit" {
					ss = append(ss, scen{ending: end, kind: k, ext: true, bound: 1})
				}
			}
		}
		ss = append(ss, scen{ending: "success", kind: "platform-late-error", bound: b})
		ss = append(ss, scen{ending: "success", kind: "broken-response-then-exit", bound: b})
		if tier == "thorough" {
			ss = append(ss, scen{ending: "success", kind: "platform-late-error", ext: true, bound: b})
		}
		tails := []int{3250}
		if tier == "thorough" {
			tails = []int{2900, 3100, 3250, 3400, 3550, 3700}
		}
		for _, t := range tails {
			ss = append(ss, scen{ending: "timeout", kind: "slow-response", bound: b, tailMs: t})
			ss = append(ss, scen{ending: "timeout", kind: "slow-error", bound: b, tailMs: t})
			if tier == "thorough" {
				ss = append(ss, scen{ending: "timeout", kind: "slow-response", ext: true, bound: 1, tailMs: t})
			}
		}
		var out []hx.Scenario
		for _, s := range ss {
			s := s
			out = append(out, hx.Scenario{Name: s.name(), Run: s.run})
		}
		return out
	}})
}
