// Package c03 decides property C03: the init barrier. Every non-directory entry of the extensions
// directory is launched exactly once, the runtime is not started before all of them registered, no
// invocation is delivered before the runtime and every accepted extension polled for their next
// event, registration closes with the first delivery, and init completes whatever the arrival order.
package c03

import (
	"encoding/json"
	"fmt"
	"sort"
	"strings"
	"time"

	"go.amzn.com/verifh/hx"
	"go.amzn.com/verifh/stack"
	"go.amzn.com/verifrt/sched"
	"go.amzn.com/verifrt/vexec"
)

type extCfg struct {
	name   string
	events []string
	isDir  bool
	stall  string // "" | before-register | before-next
	slowMs int    // held back this long (virtual time) before its first next
	link   string // the directory entry is a symbolic link to this target
}

type scen struct {
	exts      []extCfg
	internals [][]string // event lists of internal extensions (registered by the runtime process before its first next)
	rtStall   bool       // runtime never polls
	rtStall1  bool       // the runtime of the first generation never polls (timeout, reset); in the next generation everybody arrives
	late      bool       // the runtime tries to register one more extension after its first delivery
	racingInt int        // an internal extension on a thread of its own registers once the runtime has issued its first next (racing with the closing of registration) and, if accepted, polls after this many ms
	bound     int
}

func (s scen) name() string {
	var p []string
	for _, e := range s.exts {
		k := e.name + ":" + strings.Join(e.events, "+")
		if e.isDir {
			k = e.name + ":DIR"
		}
		if e.stall != "" {
			k += ":stall-" + e.stall
		}
		if e.slowMs > 0 {
			k += fmt.Sprintf(":held-%dms", e.slowMs)
		}
		if e.link != "" {
			k += ":symlink"
		}
		p = append(p, k)
	}
	var in []string
	for _, ev := range s.internals {
		in = append(in, "int:"+strings.Join(ev, "+"))
	}
	if s.racingInt > 0 {
		in = append(in, fmt.Sprintf("int-racing-with-runtime-next(polls after %d ms)", s.racingInt))
	}
	if s.rtStall1 {
		in = append(in, "runtime-stalls-in-generation-1-only")
	}
	return fmt.Sprintf("ext=[%s] %s rtStall=%v late=%v B=%d", strings.Join(p, ","), strings.Join(in, ","), s.rtStall, s.late, s.bound)
}

type rec struct {
	lateReg *stack.Call
}

func (s scen) config(r **rec) *stack.Config {
	cfg := &stack.Config{TimeoutSec: 3}
	for _, e := range s.exts {
		e := e
		cfg.Exts = append(cfg.Exts, stack.ExtSpec{Name: e.name, IsDir: e.isDir, Symlink: e.link, Body: func(x *stack.Actor) {
			if e.stall == "before-register" {
				x.Stall()
			}
			if c := x.Register(e.events, ""); c.Status != 200 {
				x.Stall()
			}
			if e.stall == "before-next" {
				x.Stall()
			}
			if e.slowMs > 0 {
				x.Sleep(time.Duration(e.slowMs) * time.Millisecond)
			}
			for {
				ev := x.ExtNext()
				if ev.Status != 200 {
					x.Stall()
				}
				if stack.EventType(ev) == "SHUTDOWN" {
					x.Exit(0)
				}
			}
		}})
	}
	cfg.Runtime = func(rt *stack.Actor) {
		if s.rtStall || (s.rtStall1 && rt.Gen == 1) {
			rt.Stall()
		}
		for i, ev := range s.internals {
			x := &stack.Actor{W: rt.W, P: rt.P, Name: fmt.Sprintf("int:in%d", i), Gen: rt.Gen, Env: rt.Env}
			if c := x.Register(ev, ""); c.Status == 200 {
				sched.Go(x.Name, func() {
					defer stack.QuietExit()
					for {
						if c := x.ExtNext(); c.Status != 200 {
							return
						}
					}
				})
			}
		}
		if s.racingInt > 0 {
			rt.Internal("racing", func(x *stack.Actor) {
				sched.Block("await-runtime-next-issued", nil, func() bool {
					for _, c := range rt.W.Calls {
						if c.Actor == "runtime" && c.Gen == rt.Gen && c.Kind == "next" {
							return true
						}
					}
					return false
				})
				if c := x.Register([]string{"INVOKE"}, ""); c.Status != 200 {
					return // refused: registration was closed already
				}
				x.Sleep(time.Duration(s.racingInt) * time.Millisecond)
				for {
					if c := x.ExtNext(); c.Status != 200 {
						return
					}
				}
			})
		}
		first := true
		for {
			n := rt.Next()
			if n.Status != 200 {
				rt.Stall()
			}
			if first && s.late {
				x := &stack.Actor{W: rt.W, P: rt.P, Name: "int:late", Gen: rt.Gen}
				(*r).lateReg = x.Register([]string{"INVOKE"}, "")
			}
			first = false
			if c := rt.Response(n.ReqID, n.Body); c.Status != 202 {
				rt.Stall()
			}
		}
	}
	return cfg
}

func (s scen) anyStall() bool {
	if s.rtStall || s.rtStall1 {
		return true
	}
	for _, e := range s.exts {
		if e.stall != "" {
			return true
		}
	}
	return false
}

func (s scen) run(c *hx.Ctx) *hx.ScenarioResult {
	var r *rec
	cfg := s.config(&r)
	cleanup := cfg.Prepare()
	defer cleanup()
	body := func() {
		r = &rec{}
		sched.Cur().Values["rec"] = r
		w := stack.NewWorld(cfg)
		w.Invoke([]byte(`{"n":1}`), nil)
		sched.Region(false)
		if !s.anyStall() || s.rtStall1 {
			w.Invoke([]byte(`{"n":2}`), nil)
		}
		sched.Finish()
	}
	return hx.ExploreScenario(c, "C03", s.name(), sched.Options{Bound: s.bound, MaxSteps: 100000, BoundAll: true, NoEarlyClock: true, HoldBack: true}, body, s.judge)
}

const timeoutText = "Task timed out after 3.00 seconds"

func (s scen) judge(e *sched.Exec) (string, string, *sched.Failure) {
	w := stack.WorldOf(e)
	if e.Crash != nil {
		return stack.CrashFailure(e, "5")
	}
	if e.Status() != sched.Finished {
		return e.Status().String(), "", &sched.Failure{Clause: "5", Sig: "hang", Msg: "the invocation never got an answer: " + fmt.Sprint(e.Blocked) + "\n" + w.Render(false)}
	}
	r := e.Values["rec"].(*rec)
	var fail *sched.Failure
	failf := func(clause, sig, f string, a ...any) {
		if fail == nil {
			fail = &sched.Failure{Clause: clause, Sig: sig, Msg: fmt.Sprintf(f, a...) + "\n" + w.Render(false)}
		}
	}
	// generation 1 only (the scenario's first environment)
	var execs []vexec.Event
	for _, k := range w.K.Log {
		if k.Kind == "signal" {
			break // teardown of the first environment: later launches belong to the next one
		}
		if k.Kind == "exec" {
			execs = append(execs, k)
		}
	}
	gen1 := func(c *stack.Call) bool { return c.Gen == 1 }
	// (1) one exec per non-directory entry, none for directories, before the runtime's
	var rtExec *vexec.Event
	count := map[string]int{}
	firstRt := -1
	for i := range execs {
		if execs[i].Path == stack.BootstrapPath {
			if firstRt < 0 {
				firstRt = i
				rtExec = &execs[i]
			}
			continue
		}
		if firstRt < 0 {
			count[execs[i].Path]++
		}
	}
	nonStallAll := !s.anyStall()
	for _, ec := range s.exts {
		p := "/opt/extensions/" + ec.name
		if ec.isDir {
			if count[p] != 0 {
				failf("1", "dir-launched", "directory entry %s was launched", ec.name)
			}
			continue
		}
		if count[p] != 1 {
			failf("1", "launch-count", "extension %s launched %d times in the first initialisation", ec.name, count[p])
		}
	}
	// accepted registrations of generation 1
	var accepted []*stack.Call
	for _, c := range w.Calls {
		if gen1(c) && c.Kind == "register" && c.Answered >= 0 && c.Status == 200 && c != r.lateReg {
			accepted = append(accepted, c)
		}
	}
	// (2) the runtime is started only after every external extension registered
	extRegs := map[string]*stack.Call{}
	for _, c := range w.Calls {
		if gen1(c) && c.Kind == "register" && strings.HasPrefix(c.Actor, "ext:") {
			extRegs[c.Actor] = c
		}
	}
	if rtExec != nil {
		for _, ec := range s.exts {
			if ec.isDir {
				continue
			}
			c := extRegs["ext:"+ec.name]
			if c == nil || !sched.HB(c.IssuedAt, rtExec.At) {
				failf("2", "runtime-before-register", "the runtime was started although extension %s had not registered", ec.name)
			}
		}
	} else if nonStallAll {
		failf("5", "runtime-not-started", "the runtime was never started")
	}
	// (3) every delivery of the first environment comes after the first poll of the runtime and of every accepted extension
	firstPoll := map[string]*stack.Call{}
	for _, c := range w.Calls {
		if gen1(c) && (c.Kind == "next" || c.Kind == "extnext") && firstPoll[c.Actor] == nil {
			firstPoll[c.Actor] = c
		}
	}
	var deliveries []*stack.Call
	for _, c := range w.Calls {
		if gen1(c) && c.Answered >= 0 && c.Status == 200 && (c.Kind == "next" || (c.Kind == "extnext" && stack.EventType(c) == "INVOKE")) {
			deliveries = append(deliveries, c)
		}
	}
	for _, d := range deliveries {
		need := []string{"runtime"}
		for _, a := range accepted {
			need = append(need, a.Actor)
		}
		for _, who := range need {
			fp := firstPoll[who]
			if fp == nil || !sched.HB(fp.IssuedAt, d.AnsAt) {
				failf("3", "delivered-before-all-arrived", "an invocation was delivered to %s before %s had asked for its next event", d.Actor, who)
			}
		}
	}
	// (4) registration after the first delivery is refused
	if s.late && r.lateReg != nil {
		var m struct {
			ErrorType string `json:"errorType"`
		}
		json.Unmarshal(r.lateReg.Body, &m)
		if r.lateReg.Status != 403 || m.ErrorType != "Extension.RegistrationClosed" {
			failf("4", "late-register-accepted", "registration after the first delivery got status %d %s", r.lateReg.Status, m.ErrorType)
		}
	}
	// (5)/(6) outcome
	inv := w.Invokes[0]
	out := fmt.Sprintf("%d:%s", inv.Status, trunc(inv.Body))
	if nonStallAll {
		if inv.Status != 200 || string(inv.Body) != `{"n":1}` {
			failf("5", "init-did-not-complete", "all parties arrived but the invocation ended with status %d body %q", inv.Status, trunc(inv.Body))
		}
		if len(w.Invokes) > 1 && (w.Invokes[1].Status != 200 || string(w.Invokes[1].Body) != `{"n":2}`) {
			failf("5", "second-invocation", "the second invocation ended with status %d body %q", w.Invokes[1].Status, trunc(w.Invokes[1].Body))
		}
	} else {
		if len(deliveries) > 0 {
			failf("6", "served-despite-stall", "one party never arrived but %s was served an invocation", deliveries[0].Actor)
		}
		if string(inv.Body) != timeoutText {
			failf("6", "stall-outcome", "one party never arrived; the caller got status %d body %q instead of the timeout outcome", inv.Status, trunc(inv.Body))
		}
	}
	if s.rtStall1 && len(w.Invokes) > 1 {
		// all parties of the next generation arrive: its initialisation completes and the invocation is served
		if inv2 := w.Invokes[1]; inv2.Status != 200 || string(inv2.Body) != `{"n":2}` {
			failf("5", "next-generation-init-did-not-complete", "every party of the generation started after the timeout arrived, but the invocation ended with status %d body %q", inv2.Status, trunc(inv2.Body))
		}
	}
	var ds []string
	for _, d := range deliveries {
		ds = append(ds, d.Actor)
	}
	sort.Strings(ds)
	return out + " deliveries=" + strings.Join(ds, ","), w.Render(false), fail
}

func trunc(b []byte) string {
	if len(b) > 100 {
		return string(b[:100]) + "..."
	}
	return string(b)
}

func subsets() [][]string {
	return [][]string{{}, {"INVOKE"}, {"SHUTDOWN"}, {"INVOKE", "SHUTDOWN"}}
}

func init() {
	hx.Register(&hx.Property{ID: "C03", Scenarios: func(tier string) []hx.Scenario {
		var ss []scen
		b := 1
		if tier == "thorough" {
			b = 2
		}
		names := []string{"a.ext", "b ext", "c"}
		// 0..2 external extensions (thorough: 3), all subscription sets, with / without one internal
		maxExt := 2
		if tier == "thorough" {
			maxExt = 3
		}
		var gen func(k int, cur []extCfg)
		gen = func(k int, cur []extCfg) {
			for _, ints := range [][][]string{nil, {{"INVOKE"}}, {{}}} {
				if tier == "quick" && len(cur) == 2 && len(ints) > 0 && len(ints[0]) == 0 {
					continue
				}
				bb := b
				if len(cur)+len(ints) >= 3 && tier == "thorough" {
					bb = 1
				}
				ss = append(ss, scen{exts: append([]extCfg{}, cur...), internals: ints, bound: bb})
			}
			if k == maxExt {
				return
			}
			for _, ev := range subsets() {
				if k >= 2 && len(ev) == 1 && ev[0] == "SHUTDOWN" {
					continue
				}
				if tier == "quick" && k == 1 && len(ev) == 0 {
					continue
				}
				gen(k+1, append(cur, extCfg{name: names[k], events: ev}))
			}
		}
		gen(0, nil)
		// directory entry next to a file; two internals
		ss = append(ss, scen{exts: []extCfg{{name: "adir", isDir: true}, {name: "zfile", events: []string{"INVOKE"}}}, bound: b})
		ss = append(ss, scen{exts: []extCfg{{name: "only-dir", isDir: true}}, bound: b})
		// entries that are symbolic links (the target exists only inside the function's root): non-directory entries
		ss = append(ss, scen{exts: []extCfg{{name: "afile", events: []string{"INVOKE"}}, {name: "blink", events: []string{"INVOKE"}, link: "/opt/tools/no-such-file-outside-the-root"}}, bound: b})
		ss = append(ss, scen{exts: []extCfg{{name: "linkonly", events: []string{}, link: "../nowhere"}}, bound: b})
		ss = append(ss, scen{internals: [][]string{{"INVOKE"}, {}}, bound: b})
		// an internal extension registering while registration is being closed (the runtime has just asked for its
		// first event, an external extension is still held back): accepted or refused, but if accepted it is waited for
		ss = append(ss, scen{exts: []extCfg{{name: "x", events: []string{"INVOKE"}, slowMs: 100}}, racingInt: 200, bound: b})
		ss = append(ss, scen{exts: []extCfg{{name: "x", events: []string{}, slowMs: 100}}, racingInt: 200, bound: b})
		ss = append(ss, scen{exts: []extCfg{{name: "x", events: []string{"INVOKE"}, slowMs: 200}}, racingInt: 100, bound: b})
		// late registration
		ss = append(ss, scen{late: true, bound: b})
		ss = append(ss, scen{exts: []extCfg{{name: "x", events: []string{"INVOKE"}}}, late: true, bound: b})
		// the first generation times out; in the next one everybody arrives
		ss = append(ss, scen{rtStall1: true, bound: b})
		ss = append(ss, scen{exts: []extCfg{{name: "x", events: []string{"INVOKE", "SHUTDOWN"}}}, rtStall1: true, bound: b})
		// one party held back for ever
		ss = append(ss, scen{rtStall: true, bound: b})
		ss = append(ss, scen{exts: []extCfg{{name: "x", events: []string{"INVOKE"}}}, rtStall: true, bound: b})
		for _, st := range []string{"before-register", "before-next"} {
			ss = append(ss, scen{exts: []extCfg{{name: "x", events: []string{"INVOKE", "SHUTDOWN"}, stall: st}}, bound: b})
			ss = append(ss, scen{exts: []extCfg{{name: "x", events: []string{"INVOKE"}}, {name: "y", events: []string{}, stall: st}}, bound: b})
		}
		var out []hx.Scenario
		for _, s := range ss {
			s := s
			out = append(out, hx.Scenario{Name: s.name(), Run: s.run})
		}
		return out
	}})
}
