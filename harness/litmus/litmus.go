// Package litmus explores the shim litmus programs (tools/litmus/lit, instrumented like the repository)
// exhaustively; selftest/litmus.sh compares the outcome sets with those of the real Go runtime.
package litmus

import (
	"sort"

	"go.amzn.com/verifh/hx"
	"go.amzn.com/veriflit"
	"go.amzn.com/verifrt/sched"
)

func init() {
	hx.Register(&hx.Property{ID: "L00", Scenarios: func(tier string) []hx.Scenario {
		var names []string
		for n := range lit.Programs {
			names = append(names, n)
		}
		sort.Strings(names)
		var out []hx.Scenario
		for _, n := range names {
			n := n
			out = append(out, hx.Scenario{Name: n, Run: func(c *hx.Ctx) *hx.ScenarioResult {
				var res string
				body := func() {
					res = lit.Programs[n]()
					sched.Finish()
				}
				judge := func(e *sched.Exec) (string, string, *sched.Failure) {
					if e.Crash != nil {
						return "CRASH " + e.Crash.Value, "", &sched.Failure{Clause: "litmus", Sig: "crash", Msg: e.Crash.Value + "\n" + e.Crash.Stack}
					}
					if e.Status() != sched.Finished {
						return "STATUS " + e.Status().String(), "", &sched.Failure{Clause: "litmus", Sig: "stuck", Msg: e.Status().String()}
					}
					return res, res, nil
				}
				// preemption bound 3, blocking choices free, timers only fire when nothing can run (the native
				// programs leave generous gaps between their timers)
				return hx.ExploreScenario(c, "L00", n, sched.Options{Bound: 3, MaxSteps: 100000, NoEarlyClock: true}, body, judge)
			}})
		}
		return out
	}})
}
