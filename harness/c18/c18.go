// Package c18 decides property C18: snapshot restore protocol and credential endpoint.
package c18

import (
	"encoding/json"
	"errors"
	"fmt"
	"strings"
	"time"

	"go.amzn.com/lambda/interop"
	"go.amzn.com/verifh/hx"
	"go.amzn.com/verifh/stack"
	"go.amzn.com/verifrt/sched"
	"go.amzn.com/verifrt/vtime"
)

const hookTimeoutMs = 1000

type scen struct {
	rt    string // hook-then-next | restore-error | init-error | stall | exit | no-restore-poll | slow-hook | late-poll | hook-at-deadline
	bound int
	early bool // timers may overtake runnable threads (hook timeout racing with the hook)
}

func (s scen) name() string {
	return fmt.Sprintf("runtime=%s B=%d early-expiry=%v", s.rt, s.bound, s.early)
}

type rec struct {
	res      *stack.RestoreResult
	nextCall *stack.Call // the runtime's first next after the restore poll
	polled   bool
	pollRet  *stack.Call
}

func (s scen) config(rp **rec) *stack.Config {
	cfg := &stack.Config{TimeoutSec: 300, InitCaching: true}
	cfg.Runtime = func(rt *stack.Actor) {
		r := *rp
		healthy := func() {
			for {
				n := rt.Next()
				if r.nextCall == nil {
					r.nextCall = n
				}
				if n.Status != 200 {
					rt.Stall()
				}
				if c := rt.Response(n.ReqID, n.Body); c.Status != 202 {
					rt.Stall()
				}
			}
		}
		switch s.rt {
		case "no-restore-poll":
			healthy()
		case "late-poll":
			rt.Sleep(500 * time.Millisecond)
		}
		r.polled = true
		r.pollRet = rt.RestoreNext()
		switch s.rt {
		case "hook-then-next", "late-poll":
			rt.Sleep(200 * time.Millisecond)
			healthy()
		case "hook-at-deadline":
			rt.Sleep(hookTimeoutMs * time.Millisecond)
			healthy()
		case "slow-hook":
			rt.Sleep(3 * hookTimeoutMs * time.Millisecond)
			healthy()
		case "restore-error":
			rt.Sleep(100 * time.Millisecond)
			rt.RestoreError("Runtime.HookBlewUp")
			rt.Stall()
		case "restore-error-bad-type":
			rt.RestoreError("<script>alert(1)</script>")
			rt.Stall()
		case "init-error":
			rt.InitError("Runtime.HookInitBlewUp", []byte(`{}`))
			rt.Stall()
		case "stall":
			rt.Stall()
		case "exit":
			rt.Sleep(100 * time.Millisecond)
			rt.Exit(1)
		}
	}
	return cfg
}

func (s scen) run(c *hx.Ctx) *hx.ScenarioResult {
	var r *rec
	cfg := s.config(&r)
	cleanup := cfg.Prepare()
	defer cleanup()
	body := func() {
		r = &rec{}
		sched.Cur().Values["rec"] = r
		w := stack.NewWorld(cfg)
		sched.Region(false)
		w.ServerInit(stack.InitParams{Handler: "h", FunctionName: "f", FunctionVersion: "1", AwsKey: "K0", AwsSecret: "S0", AwsSession: "T0", TimeoutMs: 300000})
		sched.WaitQuiet()
		sched.Region(true)
		r.res = w.ServerRestore(&interop.Restore{AwsKey: "K1", AwsSecret: "S1", AwsSession: "T1", RestoreHookTimeoutMs: hookTimeoutMs})
		sched.Finish()
	}
	opt := sched.Options{Bound: s.bound, MaxSteps: 100000, BoundAll: true, NoEarlyClock: !s.early}
	return hx.ExploreScenario(c, "C18", s.name(), opt, body, s.judge)
}

func (s scen) judge(e *sched.Exec) (string, string, *sched.Failure) {
	w := stack.WorldOf(e)
	if e.Crash != nil {
		return stack.CrashFailure(e, "1")
	}
	if e.Status() != sched.Finished {
		return e.Status().String(), "", &sched.Failure{Clause: "2", Sig: "restore-hangs", Msg: "the restore request never returned: " + fmt.Sprint(e.Blocked) + "\n" + w.Render(false)}
	}
	r := e.Values["rec"].(*rec)
	var fail *sched.Failure
	failf := func(clause, sig, f string, a ...any) {
		if fail == nil {
			fail = &sched.Failure{Clause: clause, Sig: sig, Msg: fmt.Sprintf(f, a...) + "\n" + w.Render(false)}
		}
	}
	res := r.res
	el := res.AnsNs - res.IssuedNs
	errS := "nil"
	if res.Err != nil {
		errS = res.Err.Error()
		var ue interop.ErrRestoreHookUserError
		if errors.As(res.Err, &ue) {
			errS = "user-error:" + string(ue.UserError.Type)
		}
	}
	out := fmt.Sprintf("err=%s after=%dms", errS, el/1e6)
	// was the runtime parked in the restore poll when the request arrived?
	parked := false
	for _, c := range w.Calls {
		if c.Kind == "restorenext" && sched.HB(c.IssuedAt, res.IssuedAt) {
			parked = true
		}
	}
	switch {
	case res.Err == nil:
		if parked {
			// (1) success only after the runtime ran its hook and asked for the next invocation
			var nx *stack.Call
			for _, c := range w.Calls {
				if c.Kind == "next" && nx == nil {
					nx = c
				}
			}
			if nx == nil || !sched.HB(nx.IssuedAt, res.AnsAt) {
				failf("1", "success-before-next", "the restore request succeeded although the runtime parked in the restore poll had not asked for next")
			}
		} else if el != 0 && e.EarlyClock == 0 {
			// (4) the runtime never entered the restore poll: return at once
			failf("4", "not-at-once", "the runtime was not in the restore poll, yet the restore request took %d ms", el/1e6)
		}
	case errS == "Runtime.RestoreHookUserTimeout":
		// (2) a timeout error no earlier than the hook timeout and (computation taking no virtual time) exactly at it
		if el < hookTimeoutMs*1e6 {
			failf("2", "timeout-too-early", "timeout error after %d ms, hook timeout is %d ms", el/1e6, hookTimeoutMs)
		}
		if el > hookTimeoutMs*1e6 && e.EarlyClock == 0 {
			failf("2", "timeout-too-late", "timeout error after %d ms, hook timeout is %d ms", el/1e6, hookTimeoutMs)
		}
		if s.rt == "hook-then-next" && e.EarlyClock == 0 {
			failf("2", "spurious-timeout", "the hook finished after 200 ms but the restore request reports a timeout")
		}
	default:
		// (3) the runtime's own, sanitised error type; Runtime.ExitError when it exited
		want := map[string]string{"restore-error": "Runtime.HookBlewUp", "restore-error-bad-type": "Runtime.Unknown", "init-error": "Runtime.HookInitBlewUp", "exit": "Runtime.ExitError"}[s.rt]
		if want == "" || !strings.Contains(errS, want) {
			failf("3", "wrong-error:"+s.rt, "restore request failed with %q, expected the error type %q", errS, want)
		}
	}
	// what each runtime behaviour must lead to when no timer overtakes anybody
	if e.EarlyClock == 0 {
		wantOK := map[string]bool{"hook-then-next": true, "no-restore-poll": true, "late-poll": true}
		wantTO := map[string]bool{"stall": true, "slow-hook": true}
		if wantOK[s.rt] && res.Err != nil {
			failf("1", "should-succeed:"+s.rt, "restore request failed with %q", errS)
		}
		if wantTO[s.rt] && errS != "Runtime.RestoreHookUserTimeout" {
			failf("2", "should-time-out:"+s.rt, "the runtime never came back but the restore request returned %q after %d ms", errS, el/1e6)
		}
		if (s.rt == "restore-error" || s.rt == "init-error" || s.rt == "exit" || s.rt == "restore-error-bad-type") && res.Err == nil {
			failf("3", "error-swallowed:"+s.rt, "the runtime reported a failure but the restore request succeeded")
		}
		if (s.rt == "restore-error" || s.rt == "init-error" || s.rt == "exit" || s.rt == "restore-error-bad-type") && errS == "Runtime.RestoreHookUserTimeout" {
			failf("3", "error-reported-but-timeout:"+s.rt, "the runtime reported its failure well before the hook timeout, yet the restore request failed with the timeout error after %d ms instead of the runtime's error type", el/1e6)
		}
	}
	return out, w.Render(false) + out, fail
}

// ---- credentials ----

const outerToken = "outer-container-token"

func credScenario() hx.Scenario {
	name := "credentials endpoint"
	return hx.Scenario{Name: name, Run: func(c *hx.Ctx) *hx.ScenarioResult {
		cfg := &stack.Config{TimeoutSec: 300, InitCaching: true}
		type obs struct {
			env   map[string]string
			calls []string
		}
		var o *obs
		cfg.Runtime = func(rt *stack.Actor) {
			o.env = rt.Env
			rt.RestoreNext()
			stack.EchoRuntime(nil)(rt)
		}
		cleanup := cfg.Prepare()
		defer cleanup()
		body := func() {
			o = &obs{}
			sched.Cur().Values["obs"] = o
			w := stack.NewWorld(cfg)
			w.ServerInit(stack.InitParams{Handler: "h", FunctionName: "f", FunctionVersion: "1", AwsKey: "K0", AwsSecret: "S0", AwsSession: "T0", TimeoutMs: 300000,
				// the emulator itself runs inside a container that has a credentials endpoint of its own, and forwards these
				Customer: map[string]string{"AWS_CONTAINER_AUTHORIZATION_TOKEN": outerToken, "AWS_CONTAINER_CREDENTIALS_FULL_URI": "http://169.254.170.2/outer/credentials", "PLAIN": "v"}})
			sched.WaitQuiet()
			token := o.env["AWS_CONTAINER_AUTHORIZATION_TOKEN"]
			client := &stack.Actor{W: w, P: w.K.Detached("/client"), Name: "client", Gen: 1}
			get := func(tok string, label string) {
				h := map[string]string{}
				if tok != "" {
					h["Authorization"] = tok
				}
				r := client.Raw("cred", "GET", "/2021-04-23/credentials", h, nil)
				var m map[string]any
				json.Unmarshal(r.Body, &m)
				key := fmt.Sprint(m["AccessKeyId"])
				if r.Status == 200 {
					// the whole credential set, each part in its place
					key = fmt.Sprintf("%v/%v/%v", m["AccessKeyId"], m["SecretAccessKey"], m["Token"])
				}
				o.calls = append(o.calls, fmt.Sprintf("%s:%d:%v", label, r.Status, key))
			}
			variants := func(tag string) {
				get(token, tag+"-exact")
				get("", tag+"-empty")
				get("deadbeef-dead-beef-dead-beefdeadbeef", tag+"-wrong")
				if len(token) > 4 {
					get(token[:len(token)-1], tag+"-prefix")
					get(token+"x", tag+"-suffixed")
					get(strings.ToUpper(token), tag+"-uppercase")
					get(" "+token, tag+"-leading-space")
					get("Bearer "+token, tag+"-bearer")
				}
			}
			variants("init")
			w.ServerRestore(&interop.Restore{AwsKey: "K1", AwsSecret: "S1", AwsSession: "T1", RestoreHookTimeoutMs: 5000})
			variants("restore1")
			vtime.Sleep(10 * time.Millisecond)
			w.ServerRestore(&interop.Restore{AwsKey: "K2", AwsSecret: "S2", AwsSession: "T2", RestoreHookTimeoutMs: 5000})
			variants("restore2")
			sched.Finish()
		}
		judge := func(e *sched.Exec) (string, string, *sched.Failure) {
			w := stack.WorldOf(e)
			if e.Crash != nil {
				return stack.CrashFailure(e, "5")
			}
			if e.Status() != sched.Finished {
				return e.Status().String(), "", &sched.Failure{Clause: "5", Sig: "hang", Msg: fmt.Sprint(e.Blocked) + "\n" + w.Render(false)}
			}
			o := e.Values["obs"].(*obs)
			var fail *sched.Failure
			failf := func(sig, f string, a ...any) {
				if fail == nil {
					fail = &sched.Failure{Clause: "5", Sig: sig, Msg: fmt.Sprintf(f, a...) + " calls=" + fmt.Sprint(o.calls)}
				}
			}
			// the runtime's environment: URI + token, no long-lived keys
			if o.env["AWS_CONTAINER_AUTHORIZATION_TOKEN"] == "" || !strings.HasSuffix(o.env["AWS_CONTAINER_CREDENTIALS_FULL_URI"], "/2021-04-23/credentials") {
				failf("env-no-token", "the runtime's environment lacks the credentials URI / token: %v", o.env)
			}
			if o.env["AWS_CONTAINER_AUTHORIZATION_TOKEN"] == outerToken || strings.Contains(o.env["AWS_CONTAINER_CREDENTIALS_FULL_URI"], "/outer/") {
				failf("env-forwarded-token-wins", "the runtime's environment carries the forwarded token / URI (%s, %s) instead of the instance's own", o.env["AWS_CONTAINER_AUTHORIZATION_TOKEN"], o.env["AWS_CONTAINER_CREDENTIALS_FULL_URI"])
			}
			for _, k := range []string{"AWS_ACCESS_KEY_ID", "AWS_SECRET_ACCESS_KEY", "AWS_SESSION_TOKEN"} {
				if _, ok := o.env[k]; ok {
					failf("env-has-keys:"+k, "the runtime's environment contains %s in snapshot mode", k)
				}
			}
			wantKey := map[string]string{"init": "K0/S0/T0", "restore1": "K1/S1/T1", "restore2": "K2/S2/T2"}
			for _, c := range o.calls {
				p := strings.SplitN(c, ":", 3)
				tag := strings.SplitN(p[0], "-", 2)
				if tag[1] == "exact" {
					if p[1] != "200" || p[2] != wantKey[tag[0]] {
						failf("exact-token:"+tag[0], "request with the exact token after %s: status %s key %s, expected 200 %s", tag[0], p[1], p[2], wantKey[tag[0]])
					}
				} else if p[1] == "200" {
					failf("served-without-token:"+tag[1], "credentials were served to a request with a %s token (%s)", tag[1], c)
				}
			}
			return strings.Join(o.calls, " "), strings.Join(o.calls, " "), fail
		}
		return hx.ExploreScenario(c, "C18", name, sched.Options{Bound: 0, MaxSteps: 100000, BoundAll: true, NoEarlyClock: true}, body, judge)
	}}
}

func init() {
	hx.Register(&hx.Property{ID: "C18", Scenarios: func(tier string) []hx.Scenario {
		b := 2
		if tier == "thorough" {
			b = 3
		}
		var out []hx.Scenario
		for _, rt := range []string{"hook-then-next", "restore-error", "restore-error-bad-type", "init-error", "stall", "exit", "no-restore-poll", "slow-hook", "late-poll", "hook-at-deadline"} {
			s := scen{rt: rt, bound: b}
			out = append(out, hx.Scenario{Name: s.name(), Run: s.run})
			s2 := scen{rt: rt, bound: b, early: true}
			out = append(out, hx.Scenario{Name: s2.name(), Run: s2.run})
		}
		out = append(out, credScenario())
		return out
	}})
}
