// Package c15 decides property C15: platform lifecycle events form a well-nested, truthful trace.
// A monitor over the recording EventsAPI log of every execution of the scenario families used for
// C03-C09 (healthy, init failure, exit at each point, timeout, explicit reset, repeated re-init).
package c15

import (
	"encoding/json"
	"fmt"
	"sort"
	"strings"

	"go.amzn.com/lambda/interop"
	"go.amzn.com/verifh/faults"
	"go.amzn.com/verifh/hx"
	"go.amzn.com/verifh/stack"
	"go.amzn.com/verifrt/sched"
	"go.amzn.com/verifrt/vtime"
)

type scen struct {
	faults.Scen
	explicitReset bool // an explicit Reset between invocation 1 and 2
	bound         int
}

func (s scen) name() string {
	n := s.Scen.Name()
	if s.explicitReset {
		n += " +explicit-reset"
	}
	return n + fmt.Sprintf(" B=%d", s.bound)
}

func (s scen) run(c *hx.Ctx) *hx.ScenarioResult {
	cfg := s.Scen.Config()
	cleanup := cfg.Prepare()
	defer cleanup()
	body := func() {
		w := stack.NewWorld(cfg)
		for i := 0; i < 3; i++ {
			w.Invoke(faults.Echo(i), nil)
			vtime.Sleep(500 * 1e6)
			if i == 0 && s.explicitReset {
				w.Builder.DefaultInteropServer().Reset("explicit", 2000)
			}
		}
		sched.Finish()
	}
	return hx.ExploreScenario(c, "C15", s.name(), sched.Options{Bound: s.bound, MaxSteps: 100000, BoundAll: true, NoEarlyClock: true, HoldBack: true}, body, s.judge)
}

// expected error type of the first fault of a scenario (nil: not determined by the statement)
func (s scen) faultType() string {
	f := s.F
	if f == nil {
		return ""
	}
	if f.Action == "stall" {
		return "" // a timeout is not a fault of a process
	}
	if f.Who == "runtime" {
		if f.Point == "launch" {
			return "Runtime.InvalidEntrypoint"
		}
		return "Runtime.ExitError"
	}
	switch f.Point {
	case "launch":
		return "Extension.LaunchError"
	case "init-error":
		return "Extension.InitError"
	case "exit-error", "exit-error-init":
		return "Extension.ExitError"
	}
	return "Extension.Crash"
}

func (s scen) judge(e *sched.Exec) (string, string, *sched.Failure) {
	w := stack.WorldOf(e)
	if e.Crash != nil {
		return stack.CrashFailure(e, "1")
	}
	if e.Status() != sched.Finished {
		return e.Status().String(), "", &sched.Failure{Clause: "1", Sig: "hang", Msg: "hang: " + fmt.Sprint(e.Blocked) + "\n" + w.Render(false)}
	}
	var fail *sched.Failure
	failf := func(clause, sig, f string, a ...any) {
		if fail == nil {
			fail = &sched.Failure{Clause: clause, Sig: sig, Msg: fmt.Sprintf(f, a...) + "\n" + w.Render(false)}
		}
	}
	// ---- grammar ----
	type initBlock struct {
		phase    string
		start    stack.LifeEvent
		exts     []interop.ExtensionInitData
		rtDone   *interop.InitRuntimeDoneData
		rtDoneEv stack.LifeEvent
		report   bool
		reportEv stack.LifeEvent
	}
	var inits []*initBlock
	var cur *initBlock
	type invBlock struct {
		start  interop.InvokeStartData
		done   []interop.InvokeRuntimeDoneData
		doneEv []stack.LifeEvent
	}
	var invs []*invBlock
	var kinds []string
	for _, ev := range w.Events {
		kinds = append(kinds, ev.Kind)
		switch ev.Kind {
		case "InitStart":
			d := ev.Data.(interop.InitStartData)
			if cur != nil {
				failf("1", "init-start-inside-init", "InitStart while the previous initialisation has no InitReport yet")
			}
			cur = &initBlock{phase: string(d.Phase), start: ev}
			inits = append(inits, cur)
		case "ExtensionInit":
			if cur == nil {
				failf("1", "extension-init-outside-init", "ExtensionInit outside an initialisation")
				continue
			}
			cur.exts = append(cur.exts, ev.Data.(interop.ExtensionInitData))
		case "InitRuntimeDone":
			d := ev.Data.(interop.InitRuntimeDoneData)
			if cur == nil {
				failf("1", "init-rtdone-outside-init", "InitRuntimeDone outside an initialisation")
				continue
			}
			if cur.rtDone != nil {
				failf("1", "init-rtdone-twice", "two InitRuntimeDone in one initialisation")
			}
			if string(d.Phase) != cur.phase {
				failf("1", "init-phase-tag", "InitRuntimeDone tagged %q inside an initialisation tagged %q", d.Phase, cur.phase)
			}
			cur.rtDone, cur.rtDoneEv = &d, ev
		case "InitReport":
			d := ev.Data.(interop.InitReportData)
			if cur == nil {
				failf("1", "init-report-outside-init", "InitReport without InitStart")
				continue
			}
			if string(d.Phase) != cur.phase {
				failf("1", "init-phase-tag", "InitReport tagged %q inside an initialisation tagged %q", d.Phase, cur.phase)
			}
			cur.report, cur.reportEv = true, ev
			cur = nil
		case "InvokeStart":
			invs = append(invs, &invBlock{start: ev.Data.(interop.InvokeStartData)})
		case "InvokeRuntimeDone":
			if len(invs) == 0 {
				failf("1", "invoke-rtdone-before-start", "InvokeRuntimeDone before any InvokeStart")
				continue
			}
			b := invs[len(invs)-1]
			b.done = append(b.done, ev.Data.(interop.InvokeRuntimeDoneData))
			b.doneEv = append(b.doneEv, ev)
			if len(b.done) > 1 {
				failf("1", "invoke-rtdone-twice", "two InvokeRuntimeDone for invocation %s", b.start.RequestID)
			}
		}
	}
	if cur != nil {
		failf("1", "init-without-report", "an initialisation (phase %s) has no InitReport", cur.phase)
	}
	// phase tag: the very first initialisation of an emulator runs as "init", every later one inside an invocation
	for i, b := range inits {
		want := "invoke"
		if i == 0 {
			want = "init"
		}
		if b.phase != want {
			failf("1", "init-phase-tag", "initialisation %d tagged %q, expected %q", i, b.phase, want)
		}
	}
	// one InvokeStart per dispatched invocation: request ids are distinct
	seen := map[string]bool{}
	for _, b := range invs {
		if seen[b.start.RequestID] {
			failf("1", "invoke-start-twice", "two InvokeStart for request %s", b.start.RequestID)
		}
		seen[b.start.RequestID] = true
	}
	// ---- truthfulness ----
	// runtime polls and posts
	var rtCalls []*stack.Call
	for _, c := range w.Calls {
		if c.Actor == "runtime" {
			rtCalls = append(rtCalls, c)
		}
	}
	for _, b := range inits {
		if b.rtDone == nil {
			continue
		}
		if b.rtDone.Status == "success" {
			ok := false
			for _, c := range rtCalls {
				if c.Kind == "next" && sched.HB(b.start.At, c.IssuedAt) && sched.HB(c.IssuedAt, b.rtDoneEv.At) {
					ok = true
				}
			}
			if !ok {
				failf("2", "init-success-without-next", "InitRuntimeDone says success but no runtime started in that initialisation had asked for next")
			}
			if b.rtDone.ErrorType != nil {
				failf("2", "init-success-with-error-type", "InitRuntimeDone success carries error type %s", *b.rtDone.ErrorType)
			}
		}
	}
	// error type of the first fault: judged in the faulty initialisation / invocation of the scenario
	if ft := s.faultType(); ft != "" && s.F != nil {
		initFault := s.F.At == 1 && (s.F.Point == "launch" || s.F.Point == "before-next" || s.F.Point == "init-error" || s.F.Point == "before-register" || s.F.Point == "after-register" || s.F.Point == "exit-error-init")
		if initFault && len(inits) > 0 && inits[0].rtDone != nil && inits[0].rtDone.Status != "success" {
			got := "<nil>"
			if inits[0].rtDone.ErrorType != nil {
				got = *inits[0].rtDone.ErrorType
			}
			if got != ft {
				failf("2", "init-error-type:"+got+":want="+ft, "InitRuntimeDone of the faulty initialisation carries %s, the first fault was %s", got, ft)
			}
		}
	}
	for _, b := range invs {
		for k, d := range b.done {
			if d.Status == "success" {
				// the runtime posted its response for this request and asked for next again
				var post *stack.Call
				for _, c := range rtCalls {
					if (c.Kind == "response" || c.Kind == "error") && c.ReqID == b.start.RequestID && sched.HB(c.IssuedAt, b.doneEv[k].At) {
						post = c
					}
				}
				ok := false
				if post != nil {
					after := false
					for _, c := range rtCalls {
						if c == post {
							after = true
						} else if after && c.Pid == post.Pid && c.Kind == "next" && sched.HB(c.IssuedAt, b.doneEv[k].At) {
							ok = true
						}
					}
				}
				if !ok {
					failf("2", "invoke-success-without-completion", "InvokeRuntimeDone says success for %s but the runtime had not posted its response and returned to next", b.start.RequestID)
				}
			} else if d.Status != "timeout" {
				if ft := s.faultType(); ft != "" && d.ErrorType != nil && *d.ErrorType != ft && !strings.HasPrefix(*d.ErrorType, "Sandbox.") {
					failf("2", "invoke-error-type:"+*d.ErrorType+":want="+ft, "InvokeRuntimeDone carries %s, the first fault was %s", *d.ErrorType, ft)
				}
			}
		}
	}
	// the tag: the first initialisation of an emulator runs on its own ("init"), every later one inside the invocation
	// that found no environment ("invoke")
	for bi, b := range inits {
		want := "invoke"
		if bi == 0 {
			want = "init"
		}
		if b.phase != want {
			failf("1", "init-phase-tag-wrong:"+b.phase, "initialisation %d is tagged %q, it ran %s", bi, b.phase, map[bool]string{true: "as the first initialisation (tag init)", false: "inside an invocation (tag invoke)"}[bi == 0])
		}
	}
	// extension status lines: one per known extension, truthful state and subscriptions (default schedule only:
	// the state is a moving target while the extension is still talking)
	for bi, b := range inits {
		names := map[string]int{}
		for _, x := range b.exts {
			names[x.AgentName]++
		}
		for n, k := range names {
			if k != 1 {
				failf("1", "extension-init-duplicate", "initialisation %d has %d status lines for extension %s", bi, k, n)
			}
		}
		// one status line per known extension: every extension this initialisation tried to start (started, or failed to)
		if b.report {
			for _, k := range w.K.Log {
				if (k.Kind == "exec" || k.Kind == "execfail") && strings.HasPrefix(k.Path, "/opt/extensions/") && sched.HB(b.start.At, k.At) && sched.HB(k.At, b.reportEv.At) {
					if n := strings.TrimPrefix(k.Path, "/opt/extensions/"); names[n] == 0 {
						failf("1", "extension-init-missing", "initialisation %d tried to start extension %s (%s) but reports no status line for it", bi, n, k.Kind)
					}
				}
			}
		}
		if s.bound == 0 && (bi == 0 || s.VaryEvents) && s.F != nil && s.F.At >= 1 {
			for _, x := range b.exts {
				// ground truth at the end of this initialisation (initialisation bi starts the processes of generation bi+1)
				var reg, polled bool
				var evs []string
				for _, c := range w.Calls {
					if c.Actor == "ext:"+x.AgentName && c.Gen == bi+1 && sched.HB(c.IssuedAt, b.start.At) == false {
						if c.Kind == "register" && c.Answered >= 0 && c.Status == 200 {
							reg = true
							var m struct {
								Events []string `json:"events"`
							}
							json.Unmarshal(c.Sent, &m)
							evs = m.Events
						}
						if c.Kind == "extnext" && reg {
							polled = true
						}
					}
				}
				_ = polled
				if x.State == "Started" && reg && s.F.Who == "runtime" {
					failf("3", "extension-state-started", "extension %s is reported Started although it had registered", x.AgentName)
				}
				if reg && len(x.Subscriptions) > 0 {
					got := append([]string{}, x.Subscriptions...)
					sort.Strings(got)
					want := append([]string{}, evs...)
					sort.Strings(want)
					if strings.Join(got, ",") != strings.Join(want, ",") {
						failf("3", "extension-subscriptions", "extension %s is reported with subscriptions %v, it registered for %v", x.AgentName, x.Subscriptions, evs)
					}
				}
			}
		}
	}
	return strings.Join(kinds, " "), w.Render(false), fail
}

func init() {
	hx.Register(&hx.Property{ID: "C15", Scenarios: func(tier string) []hx.Scenario {
		var ss []scen
		b := 0
		maxExt := 1
		if tier == "thorough" {
			b = 1
			maxExt = 2
		}
		add := func(next int, f *faults.Fault, bound int, explicit bool) {
			ss = append(ss, scen{Scen: faults.Scen{NExt: next, F: f, Timeout: 3}, bound: bound, explicitReset: explicit})
		}
		for next := 0; next <= maxExt; next++ {
			add(next, nil, b, false)
			add(next, nil, b, true)
			for _, a := range []string{"exit1", "sig9", "stall"} {
				for _, p := range []string{"before-next", "init-error"} {
					if a == "stall" && p == "init-error" {
						continue
					}
					add(next, &faults.Fault{Who: "runtime", Point: p, Action: a, At: 1}, b, false)
				}
				for _, at := range []int{1, 2} {
					for _, p := range []string{"after-next", "after-response", "idle"} {
						if a == "stall" && p == "idle" {
							continue
						}
						add(next, &faults.Fault{Who: "runtime", Point: p, Action: a, At: at}, b, false)
					}
				}
				for x := 0; x < next; x++ {
					who := fmt.Sprintf("ext%d", x)
					for _, p := range []string{"before-register", "after-register", "init-error", "exit-error-init"} {
						if a == "stall" && (p == "init-error" || p == "exit-error-init") {
							continue
						}
						add(next, &faults.Fault{Who: who, Point: p, Action: a, At: 1}, b, false)
					}
					for _, at := range []int{1, 2} {
						for _, p := range []string{"after-event", "exit-error"} {
							if a == "stall" && p == "exit-error" {
								continue
							}
							add(next, &faults.Fault{Who: who, Point: p, Action: a, At: at}, b, false)
						}
					}
				}
			}
			for _, la := range []string{"enoent"} {
				add(next, &faults.Fault{Who: "runtime", Point: "launch", Action: la, At: 1}, b, false)
				for x := 0; x < next; x++ {
					add(next, &faults.Fault{Who: fmt.Sprintf("ext%d", x), Point: "launch", Action: la, At: 1}, b, false)
				}
			}
		}
		if tier == "quick" {
			add(1, nil, 1, false)
			add(1, &faults.Fault{Who: "runtime", Point: "after-next", Action: "exit1", At: 1}, 1, false)
			add(1, &faults.Fault{Who: "ext0", Point: "after-register", Action: "exit1", At: 1}, 1, false)
			add(0, &faults.Fault{Who: "runtime", Point: "after-next", Action: "stall", At: 2}, 1, false)
			add(0, &faults.Fault{Who: "runtime", Point: "before-next", Action: "sig9", At: 1}, 1, false)
			add(1, &faults.Fault{Who: "runtime", Point: "before-next", Action: "exit1", At: 1}, 1, false)
			add(1, &faults.Fault{Who: "runtime", Point: "idle", Action: "exit1", At: 1}, 1, false)
		}
		// the extensions of the generation started after the fault subscribe differently: the status lines of the second
		// initialisation describe them, not their predecessors
		for _, f := range []*faults.Fault{{Who: "runtime", Point: "after-next", Action: "exit1", At: 1}, {Who: "runtime", Point: "after-next", Action: "stall", At: 1}, {Who: "runtime", Point: "idle", Action: "sig9", At: 1}} {
			ss = append(ss, scen{Scen: faults.Scen{NExt: 1, F: f, Timeout: 3, VaryEvents: true}, bound: 0})
		}
		var out []hx.Scenario
		for _, s := range ss {
			s := s
			out = append(out, hx.Scenario{Name: s.name(), Run: s.run})
		}
		return out
	}})
}
