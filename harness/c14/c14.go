// Package c14 decides property C14: the response size limit is exact and an oversized response is
// survivable (no reset); oversized events are cut at the limit.
// Boundary-exhaustive sizes x positions in a 3-invocation history on one environment.
package c14

import (
	"bytes"
	"encoding/json"
	"fmt"
	"strings"

	"go.amzn.com/lambda/interop"
	"go.amzn.com/verifh/hx"
	"go.amzn.com/verifh/stack"
	"go.amzn.com/verifrt/sched"
)

const limit = interop.MaxPayloadSize

func pat(n, tag int) []byte {
	b := make([]byte, n)
	for i := range b {
		b[i] = byte((i*11 + i/253 + tag*17) % 256)
	}
	return b
}

type plan struct {
	respSize [3]int
	evSize   [3]int
}

func (p plan) name() string { return fmt.Sprintf("resp=%v ev=%v", p.respSize, p.evSize) }

func body(p plan) (func(), *stack.Config) {
	cfg := &stack.Config{TimeoutSec: 3}
	return func() {
		k := 0
		cfg.Runtime = func(rt *stack.Actor) {
			for {
				n := rt.Next()
				if n.Status != 200 || k >= 3 {
					rt.Stall()
				}
				i := k
				k++
				if p.evSize[i] >= limit {
					// a second poll within the invocation returns the same (cut) event again
					rt.Raw("nextrepeat", "GET", "/2018-06-01/runtime/invocation/next", map[string]string{"User-Agent": "verif-runtime/1.0"}, nil)
				}
				rt.Response(n.ReqID, pat(p.respSize[i], 50+i))
			}
		}
		w := stack.NewWorld(cfg)
		for i := 0; i < 3; i++ {
			w.Invoke(pat(p.evSize[i], i), nil)
		}
		sched.Finish()
	}, cfg
}

func judge(p plan) sched.Judge {
	return func(e *sched.Exec) (string, string, *sched.Failure) {
		w := stack.WorldOf(e)
		if e.Crash != nil {
			return "crash", e.Crash.Value, &sched.Failure{Clause: "3", Sig: "crash", Msg: "emulator crashed: " + e.Crash.Value + "\n" + e.Crash.Stack}
		}
		if e.Status() != sched.Finished {
			return e.Status().String(), "", &sched.Failure{Clause: "3", Sig: "hang", Msg: "hang: " + fmt.Sprint(e.Blocked) + "\n" + w.Render(false)}
		}
		var fail *sched.Failure
		failf := func(clause, sig, f string, a ...any) {
			if fail == nil {
				fail = &sched.Failure{Clause: clause, Sig: sig, Msg: fmt.Sprintf(f, a...) + " plan " + p.name() + "\n" + w.Render(false)}
			}
		}
		var nexts, posts []*stack.Call
		for _, c := range w.Calls {
			if c.Kind == "next" && c.Answered >= 0 && c.Status == 200 {
				nexts = append(nexts, c)
			}
			if c.Kind == "response" && c.Answered >= 0 {
				posts = append(posts, c)
			}
		}
		// a repeated poll delivers exactly what the first one delivered
		var lastNext *stack.Call
		for _, c := range w.Calls {
			if c.Kind == "next" && c.Answered >= 0 && c.Status == 200 {
				lastNext = c
			}
			if c.Kind == "nextrepeat" && c.Answered >= 0 && lastNext != nil && (c.Status != 200 || !bytes.Equal(c.Body, lastNext.Body)) {
				failf("4", "event-cut:repeated-next", "a repeated next within the invocation returned status %d and %d bytes, the first one had delivered %d bytes", c.Status, len(c.Body), len(lastNext.Body))
			}
		}
		var outs []string
		for i := 0; i < 3; i++ {
			inv := w.Invokes[i]
			if i >= len(nexts) || i >= len(posts) {
				failf("3", "not-served", "invocation %d was not delivered / answered by the runtime", i)
				break
			}
			// events longer than the limit reach the runtime cut to exactly the limit
			wantEv := pat(p.evSize[i], i)
			if len(wantEv) > limit {
				wantEv = wantEv[:limit]
			}
			if !bytes.Equal(nexts[i].Body, wantEv) {
				failf("4", fmt.Sprintf("event-cut:%s", rel(p.evSize[i])), "invocation %d: event of %d bytes reached the runtime as %d bytes, expected %d", i, p.evSize[i], len(nexts[i].Body), len(wantEv))
			}
			resp := pat(p.respSize[i], 50+i)
			if p.respSize[i] <= limit {
				if posts[i].Status != 202 {
					failf("1", fmt.Sprintf("response-refused:%s", rel(p.respSize[i])), "invocation %d: response of %d bytes (limit %d) got status %d", i, p.respSize[i], limit, posts[i].Status)
				}
				if inv.Status != 200 || !bytes.Equal(inv.Body, resp) {
					failf("1", fmt.Sprintf("response-not-intact:%s", rel(p.respSize[i])), "invocation %d: response of %d bytes arrived as status %d, %d bytes", i, p.respSize[i], inv.Status, len(inv.Body))
				}
				outs = append(outs, "ok")
			} else {
				if posts[i].Status != 413 {
					failf("2", fmt.Sprintf("oversize-accepted:%s", rel(p.respSize[i])), "invocation %d: response of %d bytes (limit %d) got status %d, expected 413", i, p.respSize[i], limit, posts[i].Status)
				}
				var m struct {
					ErrorType    string `json:"errorType"`
					ErrorMessage string `json:"errorMessage"`
				}
				json.Unmarshal(inv.Body, &m)
				// both sizes, each in its role: "payload size (<size>) exceeded maximum allowed payload size (<limit>)"
				iSize, iLimit := strings.Index(m.ErrorMessage, fmt.Sprint(p.respSize[i])), strings.LastIndex(m.ErrorMessage, fmt.Sprint(limit))
				iMax := strings.Index(m.ErrorMessage, "maximum")
				if m.ErrorType != "Function.ResponseSizeTooLarge" || iSize < 0 || iLimit < 0 || (iMax >= 0 && !(iSize < iMax && iMax < iLimit)) {
					failf("2", fmt.Sprintf("oversize-error-body:%s", rel(p.respSize[i])), "invocation %d: caller got status %d body %q, expected Function.ResponseSizeTooLarge naming %d and %d", i, inv.Status, trunc(inv.Body), p.respSize[i], limit)
				}
				outs = append(outs, "too-large")
			}
		}
		// survivable: no signal, no second exec between the invocations
		execs, sigs := 0, 0
		for _, k := range w.K.Log {
			switch k.Kind {
			case "exec":
				execs++
			case "signal":
				sigs++
			}
		}
		if execs != 1 || sigs != 0 {
			failf("3", "reset-after-oversize", "the environment was torn down: %d execs, %d signals in the kernel log", execs, sigs)
		}
		return strings.Join(outs, ","), strings.Join(outs, ","), fail
	}
}

func rel(n int) string {
	switch {
	case n == limit:
		return "limit"
	case n > limit:
		return fmt.Sprintf("limit+%d", n-limit)
	case n >= limit-4:
		return fmt.Sprintf("limit-%d", limit-n)
	}
	return fmt.Sprint(n)
}

func trunc(b []byte) string {
	if len(b) > 160 {
		return string(b[:160]) + "..."
	}
	return string(b)
}

func init() {
	hx.Register(&hx.Property{ID: "C14", Scenarios: func(tier string) []hx.Scenario {
		sizes := []int{0, 1, limit / 2, limit - 2, limit - 1, limit, limit + 1, limit + 2, 2 * limit}
		var plans []plan
		for _, s := range sizes {
			for pos := 0; pos < 3; pos++ {
				// response size s at position pos, small elsewhere
				p := plan{respSize: [3]int{10, 11, 12}, evSize: [3]int{5, 6, 7}}
				p.respSize[pos] = s
				plans = append(plans, p)
				// event size s at position pos
				q := plan{respSize: [3]int{10, 11, 12}, evSize: [3]int{5, 6, 7}}
				q.evSize[pos] = s
				plans = append(plans, q)
			}
		}
		// two and three oversize responses of different sizes in one environment (each error names its own size)
		plans = append(plans, plan{respSize: [3]int{limit + 1, limit + 100, 3}, evSize: [3]int{5, 6, 7}})
		plans = append(plans, plan{respSize: [3]int{2 * limit, limit + 1, limit + 2}, evSize: [3]int{5, limit, 7}})
		if tier == "thorough" {
			// mixed pairs: oversized response followed / preceded by boundary sizes, and oversize event + oversize response together
			for _, a := range []int{limit, limit + 1, 2 * limit} {
				for _, b := range []int{0, limit - 1, limit, limit + 1} {
					plans = append(plans, plan{respSize: [3]int{a, b, 3}, evSize: [3]int{b, a, 9}})
					plans = append(plans, plan{respSize: [3]int{b, a, a}, evSize: [3]int{a, a, b}})
				}
			}
		}
		var out []hx.Scenario
		for _, p := range plans {
			p := p
			out = append(out, hx.Scenario{Name: p.name(), Run: func(c *hx.Ctx) *hx.ScenarioResult {
				b, cfg := body(p)
				cleanup := cfg.Prepare()
				defer cleanup()
				return hx.ExploreScenario(c, "C14", p.name(), sched.Options{Bound: 0, MaxSteps: 100000, BoundAll: true}, b, judge(p))
			}})
		}
		return out
	}})
}
