// Package c08 decides property C08: a reset leaves no trace of earlier generations.
// Differential oracle, no hand-written expectation: the suffix scenario after (prefix + reset) must
// look, to callers, runtimes and extensions, exactly like the same suffix on a freshly started
// emulator (i); and, including supervisor requests and lifecycle events, exactly like the suffix after
// any other prefix (ii). With deviations, the late handling of an old process's exit notification is
// interleaved in every order with the state clearing and the start of the next invocation.
package c08

import (
	"encoding/json"
	"fmt"
	"os"
	"regexp"
	"strings"

	"go.amzn.com/verifh/faults"
	"go.amzn.com/verifh/hx"
	"go.amzn.com/verifh/stack"
	"go.amzn.com/verifrt/sched"
	"go.amzn.com/verifrt/vtime"
)

type prefix struct {
	name     string
	f        *faults.Fault // fault striking in the prefix phase (nil: healthy)
	n        int           // invocations in the prefix
	explicit bool          // end the prefix with an explicit Reset call
}

type suffix struct {
	name  string
	f     *faults.Fault // fault striking in the suffix phase
	slow  bool
	ghost string // "" | next | init-error | exit-error: a process that kept the identifier of an extension of the earlier generation (a fresh emulator: an identifier never issued) uses it once the new extension has registered
}

type scen struct {
	next  int
	p     prefix
	s     suffix
	bound int
	lagMs int // a held goroutine of the emulator may lag this far behind in virtual time (0: the default 150 ms)
}

func (c scen) name() string {
	if c.lagMs > 0 {
		return fmt.Sprintf("ext=%d prefix=%s suffix=%s lag<=%dms B=%d", c.next, c.p.name, c.s.name, c.lagMs, c.bound)
	}
	return fmt.Sprintf("ext=%d prefix=%s suffix=%s B=%d", c.next, c.p.name, c.s.name, c.bound)
}

func (c scen) config(withPrefix bool) *stack.Config {
	sc := faults.Scen{NExt: c.next, Timeout: 3, SlowRt: c.s.slow}
	if c.s.f != nil {
		f := *c.s.f
		f.Phase = "suffix"
		sc.More = append(sc.More, &f)
	}
	if withPrefix && c.p.f != nil {
		f := *c.p.f
		f.Phase = "prefix"
		sc.More = append(sc.More, &f)
	}
	return sc.Config()
}

type rec struct {
	mark stack.Marks
}

const neverIssued = "11111111-2222-3333-4444-555555555555"

// startGhost: see suffix.ghost. The identifier is the one handed to ext0 before the mark, if any.
func (c scen) startGhost(w *stack.World) {
	id := neverIssued
	nreg := 0
	for _, k := range w.Calls {
		if k.Kind == "register" && k.Answered >= 0 && k.Status == 200 {
			nreg++
			if v := k.Header.Get("Lambda-Extension-Identifier"); v != "" && strings.HasPrefix(k.Actor, "ext:") {
				id = v
			}
		}
	}
	g := &stack.Actor{W: w, P: w.K.Detached("/ghost"), Name: "ghost", Gen: 1, ExtID: id}
	sched.Go("ghost", func() {
		defer stack.QuietExit()
		sched.Block("await-new-registration", nil, func() bool {
			n := 0
			for _, k := range w.Calls {
				if k.Kind == "register" && k.Answered >= 0 && k.Status == 200 {
					n++
				}
			}
			return n > nreg
		})
		switch c.s.ghost {
		case "next":
			g.ExtNext()
		case "init-error":
			g.ExtInitError("Ghost.Error")
		case "exit-error":
			g.ExtExitError("Ghost.Error")
		}
	})
}

// ghostOutcome renders what the ghost saw.
func ghostOutcome(w *stack.World) string {
	out := ""
	for _, k := range w.Calls {
		if k.Actor != "ghost" {
			continue
		}
		if k.Answered < 0 {
			out += fmt.Sprintf("ghost %s -> (never answered)\n", k.Kind)
			continue
		}
		var m struct {
			ErrorType string `json:"errorType"`
		}
		json.Unmarshal(k.Body, &m)
		out += fmt.Sprintf("ghost %s -> %d %s\n", k.Kind, k.Status, m.ErrorType)
	}
	return out
}

// body runs (optionally the prefix and its reset, then) the suffix: 3 invocations.
func (c scen) body(cfg *stack.Config, withPrefix bool, devs bool) func() {
	return func() {
		r := &rec{}
		sched.Cur().Values["rec"] = r
		w := stack.NewWorld(cfg)
		sched.Region(false)
		if withPrefix {
			w.Phase = "prefix"
			for i := 0; i < c.p.n; i++ {
				if devs && i == c.p.n-1 {
					sched.Region(true) // the reset at the end of the prefix is where late notifications live
				}
				w.Invoke(faults.Echo(100+i), nil)
			}
			if c.p.explicit {
				if devs {
					sched.Region(true)
				}
				w.Builder.DefaultInteropServer().Reset("explicit", 2000)
			}
			vtime.Sleep(200 * 1e6)
		}
		w.Phase = "suffix"
		r.mark = w.Mark()
		if c.s.ghost != "" {
			c.startGhost(w)
		}
		for i := 0; i < 3; i++ {
			if i == 1 {
				sched.Region(false)
			}
			w.Invoke(faults.Echo(i), nil)
			vtime.Sleep(300 * 1e6)
		}
		sched.Finish()
	}
}

func (c scen) run(ctx *hx.Ctx) *hx.ScenarioResult {
	// reference 1: the suffix on a pristine emulator (actor-visible trace)
	cfgP := c.config(false)
	cleanP := cfgP.Prepare()
	var pristine string
	ref := sched.Run(&sched.ReplayStrategy{}, 100000, false, c.body(cfgP, false, false))
	if w := stack.WorldOf(ref); w != nil && ref.Status() == sched.Finished && ref.Crash == nil {
		pristine = maskReason(w.ActorTrace(ref.Values["rec"].(*rec).mark)) + ghostOutcome(w)
	}
	cleanP()
	// reference 2: the suffix after the reference prefix (healthy + explicit reset), everything included
	refScen := c
	refScen.p = prefix{name: "healthy+explicit", n: 1, explicit: true}
	cfgR := refScen.config(true)
	cleanR := cfgR.Prepare()
	var platformRef string
	ref2 := sched.Run(&sched.ReplayStrategy{}, 100000, false, refScen.body(cfgR, true, false))
	if w := stack.WorldOf(ref2); w != nil && ref2.Status() == sched.Finished && ref2.Crash == nil {
		platformRef = w.ActorTrace(ref2.Values["rec"].(*rec).mark) + ghostOutcome(w) + w.PlatformTrace(ref2.Values["rec"].(*rec).mark)
	}
	ref2How := ""
	if platformRef == "" {
		ref2How = ref2.Status().String()
		if ref2.Crash != nil {
			ref2How = "crash: " + fmt.Sprint(ref2.Crash)
		}
	}
	cleanR()

	cfg := c.config(true)
	cleanup := cfg.Prepare()
	defer cleanup()
	judge := func(e *sched.Exec) (string, string, *sched.Failure) {
		w := stack.WorldOf(e)
		if e.Crash != nil {
			return stack.CrashFailure(e, "1")
		}
		if e.Status() != sched.Finished {
			return e.Status().String(), "", &sched.Failure{Clause: "1", Sig: "hang", Msg: "hang: " + fmt.Sprint(e.Blocked) + "\n" + w.Render(false)}
		}
		if pristine != "" && platformRef == "" {
			// the same suffix completes on a fresh emulator but not after one healthy invocation and an explicit reset
			return "ref2-fails", "", &sched.Failure{Clause: "1", Sig: "suffix-fails-after-plain-reset", Msg: "the suffix completes on a fresh emulator; after one healthy invocation and an explicit reset (default schedule) it ends as: " + ref2How}
		}
		if pristine == "" || platformRef == "" {
			return "noref", "", &sched.Failure{Clause: "engine", Sig: "no-reference", Msg: "the reference runs did not finish"}
		}
		m := e.Values["rec"].(*rec).mark
		full := w.ActorTrace(m) + ghostOutcome(w)
		got := maskReason(w.ActorTrace(m)) + ghostOutcome(w)
		var fail *sched.Failure
		if got != pristine {
			fail = &sched.Failure{Clause: "1", Sig: "suffix-differs-from-fresh:" + diffClass(pristine, got), Msg: "after prefix " + c.p.name + " + reset the suffix does not look like the same suffix on a fresh emulator\n--- fresh\n" + pristine + "--- after reset\n" + got + "\n" + w.Render(false)}
		} else if c.bound == 0 {
			if pt := full + w.PlatformTrace(m); pt != platformRef {
				fail = &sched.Failure{Clause: "2", Sig: "platform-trace-depends-on-prefix:" + diffClass(platformRef, pt), Msg: "supervisor requests / lifecycle events of the suffix differ from those after the reference prefix\n--- after healthy+explicit reset\n" + platformRef + "--- after " + c.p.name + "\n" + pt}
			}
		}
		return firstLine(got), w.Render(false), fail
	}
	lag := int64(150e6)
	if c.lagMs > 0 {
		lag = int64(c.lagMs) * 1e6
	}
	return hx.ExploreScenario(ctx, "C08", c.name(), sched.Options{Bound: c.bound, MaxSteps: 150000, BoundAll: true, NoEarlyClock: true, HoldBack: true, HoldLagNs: lag}, c.body(cfg, true, c.bound > 0), judge)
}

var reasonRe = regexp.MustCompile(`shutdownReason\\":\\"[A-Za-z]*`)

// maskReason hides the shutdown reason: a fresh emulator runs its first initialisation in a phase of its
// own and ends a failed one with reason "spindown", a reset one initialises inside the invocation and
// ends with "ReleaseFail". That is the position in the lifecycle, not a trace of an earlier generation;
// comparison (ii) among prefixes keeps the reason.
func maskReason(s string) string { return reasonRe.ReplaceAllString(s, `shutdownReason\":\"*`) }

func firstLine(s string) string {
	l := strings.Split(s, "\n")
	var o []string
	for _, x := range l {
		if strings.HasPrefix(x, "invoke") {
			o = append(o, x)
		}
	}
	return strings.Join(o, ";")
}

// diffClass names the first differing line (stable part only) for the signature.
func diffClass(a, b string) string {
	la, lb := strings.Split(a, "\n"), strings.Split(b, "\n")
	for i := 0; i < len(la) || i < len(lb); i++ {
		x, y := "", ""
		if i < len(la) {
			x = la[i]
		}
		if i < len(lb) {
			y = lb[i]
		}
		if x != y {
			w := strings.Fields(y)
			if len(w) == 0 {
				w = strings.Fields(x)
			}
			if len(w) > 4 {
				w = w[:4]
			}
			return strings.Join(w, "_")
		}
	}
	return "same"
}

func prefixes(next int) []prefix {
	ps := []prefix{
		{name: "healthy+explicit", n: 1, explicit: true},
		{name: "healthy2+explicit", n: 2, explicit: true},
		{name: "rt-init-error", n: 1, f: &faults.Fault{Who: "runtime", Point: "init-error", Action: "exit1", At: 1}},
		{name: "rt-exit-before-next", n: 1, f: &faults.Fault{Who: "runtime", Point: "before-next", Action: "exit1", At: 1}},
		{name: "rt-crash-after-next", n: 1, f: &faults.Fault{Who: "runtime", Point: "after-next", Action: "sig9", At: 1}},
		{name: "rt-exit-after-response", n: 1, f: &faults.Fault{Who: "runtime", Point: "after-response", Action: "exit0", At: 1}},
		{name: "rt-timeout-after-next", n: 1, f: &faults.Fault{Who: "runtime", Point: "after-next", Action: "stall", At: 1}},
		{name: "rt-timeout-before-next", n: 1, f: &faults.Fault{Who: "runtime", Point: "before-next", Action: "stall", At: 1}},
		{name: "rt-crash-in-2nd", n: 2, f: &faults.Fault{Who: "runtime", Point: "after-next", Action: "exit1", At: 2}},
	}
	if next > 0 {
		ps = append(ps,
			prefix{name: "ext-exit-error", n: 1, f: &faults.Fault{Who: "ext0", Point: "exit-error", Action: "exit1", At: 1}},
			prefix{name: "ext-crash-after-event", n: 1, f: &faults.Fault{Who: "ext0", Point: "after-event", Action: "sig9", At: 1}},
			prefix{name: "ext-init-error", n: 1, f: &faults.Fault{Who: "ext0", Point: "init-error", Action: "exit1", At: 1}},
			prefix{name: "ext-stall-after-register", n: 1, f: &faults.Fault{Who: "ext0", Point: "after-register", Action: "stall", At: 1}},
			prefix{name: "ext-stall-before-register", n: 1, f: &faults.Fault{Who: "ext0", Point: "before-register", Action: "stall", At: 1}},
		)
	}
	return ps
}

func suffixes(next int) []suffix {
	ss := []suffix{
		{name: "healthy"},
		{name: "rt-crash-after-next", f: &faults.Fault{Who: "runtime", Point: "after-next", Action: "exit1", At: 1}},
		{name: "rt-init-error", f: &faults.Fault{Who: "runtime", Point: "init-error", Action: "exit1", At: 1}},
		{name: "rt-timeout", f: &faults.Fault{Who: "runtime", Point: "after-next", Action: "stall", At: 2}},
	}
	if next > 0 {
		ss = append(ss,
			suffix{name: "ext-exit-error-slowrt", slow: true, f: &faults.Fault{Who: "ext0", Point: "exit-error", Action: "exit1", At: 1}},
			suffix{name: "ext-crash-idle", f: &faults.Fault{Who: "ext0", Point: "idle", Action: "sig9", At: 1}},
			suffix{name: "ghost-next", ghost: "next"},
			suffix{name: "ghost-init-error", ghost: "init-error"},
			suffix{name: "ghost-exit-error", ghost: "exit-error"},
		)
	}
	return ss
}

func init() {
	hx.Register(&hx.Property{ID: "C08", Scenarios: func(tier string) []hx.Scenario {
		var out []hx.Scenario
		add := func(c scen) { out = append(out, hx.Scenario{Name: c.name(), Run: c.run}) }
		maxExt := 1
		if tier == "thorough" {
			maxExt = 2
		}
		for next := 0; next <= maxExt; next++ {
			for _, p := range prefixes(next) {
				for _, s := range suffixes(next) {
					add(scen{next: next, p: p, s: s, bound: 0})
				}
			}
		}
		// late notification: all orders (within the bound) of {exit notice of an old process, state clearing,
		// start of the next invocation}
		lb := 1
		if tier == "thorough" {
			lb = 2
		}
		for next := 0; next <= 1; next++ {
			for _, p := range prefixes(next) {
				if tier == "quick" && (p.name == "healthy2+explicit" || p.name == "rt-init-error" || p.name == "rt-timeout-before-next" || p.name == "ext-init-error") {
					continue
				}
				add(scen{next: next, p: p, s: suffixes(next)[0], bound: lb})
			}
		}
		// one goroutine of the emulator lagging behind by more than the function timeout (3 s) and the reaping grace (2 s)
		if os.Getenv("VERIF_SLOWGO") != "" {
			for next := 0; next <= 1; next++ {
				for _, pi := range []int{4, 6, 8} {
					add(scen{next: next, p: prefixes(next)[pi], s: suffixes(next)[0], bound: 1, lagMs: 6000})
				}
			}
		}
		// the ghost of an old extension, moved around by deviations
		for _, g := range []string{"next", "exit-error"} {
			for _, pi := range []int{0, 6} {
				add(scen{next: 1, p: prefixes(1)[pi], s: suffix{name: "ghost-" + g, ghost: g}, bound: lb})
			}
		}
		return out
	}})
}
