// Package c07 decides property C07: whatever the runtime and extension processes do, the emulator keeps
// running, every invocation gets an outcome within timeout + allowance, the caller's body is either
// what the runtime posted for that invocation or a platform-generated error / timeout message, and once
// all processes behave again at most one further invocation fails.
// Exhaustive enumeration of scripted programs over the full Runtime / Extensions API alphabet (misuse
// included) per generation.
package c07

import (
	"encoding/json"
	"fmt"
	"strings"
	"time"

	"go.amzn.com/verifh/hx"
	"go.amzn.com/verifh/stack"
	"go.amzn.com/verifrt/sched"
	"go.amzn.com/verifrt/vtime"
)

const T = 2
const allowanceNs = int64(4100 * time.Millisecond)

var rtAlphabet = []string{"next", "response", "response-broken", "response-stale", "response-unknown", "error", "init-error", "restore-next", "restore-error", "unknown-route", "wrong-method"}
var extAlphabet = []string{"register", "register-bogus-event", "register-again", "next", "next-bad-id", "init-error", "exit-error", "unknown-route"}
var terminals = []string{"loop", "stall", "exit0", "exit1", "sig9"}

type program struct {
	calls []string
	term  string
}

func (p program) String() string { return strings.Join(p.calls, ",") + "/" + p.term }

type scen struct {
	gens  []program   // runtime program per faulty generation (then healthy)
	exts  [][]program // per extension: program per faulty generation (then healthy)
	bound int
	ninv  int
}

func (s scen) name() string {
	var g []string
	for _, p := range s.gens {
		g = append(g, p.String())
	}
	n := "runtime=[" + strings.Join(g, " | ") + "]"
	for i, e := range s.exts {
		var x []string
		for _, p := range e {
			x = append(x, p.String())
		}
		n += fmt.Sprintf(" ext%d=[%s]", i, strings.Join(x, " | "))
	}
	return n + fmt.Sprintf(" B=%d", s.bound)
}

type rec struct {
	posted   map[string][]string // request id -> bodies the runtime posted for it
	idOf     map[string]string   // event payload -> request id under which it was delivered
	behaveNs int64               // virtual time from which every process behaves (last faulty script over / faulty process dead)
	faulty   int                 // faulty scripts still running
	seq      int
}

func (r *rec) doneFaulty() {
	r.faulty--
	if t := sched.NowNs(); t > r.behaveNs {
		r.behaveNs = t
	}
}

func echo(i int) []byte { return []byte(fmt.Sprintf(`{"inv":%d}`, i)) }

func terminal(a *stack.Actor, r *rec, term string, loop func()) {
	switch term {
	case "loop":
		r.doneFaulty()
		loop()
	case "stall":
		// the process idles until the platform kills it
		p := a.P
		sched.Go("death-watch", func() {
			sched.Block("await-death", nil, func() bool { return !p.Alive })
			r.doneFaulty()
		})
		a.Stall()
	case "exit0":
		r.doneFaulty()
		a.Exit(0)
	case "exit1":
		r.doneFaulty()
		a.Exit(1)
	case "sig9":
		r.doneFaulty()
		a.Crash(9)
	}
}

func (s scen) config(rp **rec) *stack.Config {
	cfg := &stack.Config{TimeoutSec: T}
	cfg.Runtime = func(rt *stack.Actor) {
		r := *rp
		cur, stale := "", "00000000-0000-0000-0000-000000000001"
		healthy := func() {
			for {
				n := rt.Next()
				if n.Status != 200 {
					rt.Exit(1) // a well-behaved runtime gives up on a protocol error
				}
				r.idOf[string(n.Body)] = n.ReqID
				r.posted[n.ReqID] = append(r.posted[n.ReqID], string(n.Body))
				if c := rt.Response(n.ReqID, n.Body); c.Status != 202 {
					rt.Exit(1)
				}
			}
		}
		if rt.Gen > len(s.gens) {
			healthy()
		}
		p := s.gens[rt.Gen-1]
		for _, c := range p.calls {
			r.seq++
			body := fmt.Sprintf(`"posted-%d"`, r.seq)
			switch c {
			case "next":
				n := rt.Next()
				if n.Status == 200 && n.ReqID != "" {
					if cur != "" {
						stale = cur
					}
					cur = n.ReqID
					r.idOf[string(n.Body)] = n.ReqID
				}
			case "response":
				id := cur
				if id == "" {
					id = "11111111-1111-1111-1111-111111111111"
				}
				r.posted[id] = append(r.posted[id], body)
				rt.Response(id, []byte(body))
			case "response-broken":
				// the upload breaks off after a fragment: not a payload the runtime posted (a caller must never get it)
				id := cur
				if id == "" {
					id = "11111111-1111-1111-1111-111111111111"
				}
				rt.ResponseBroken(id, []byte(fmt.Sprintf(`"fragment-%d`, r.seq)))
			case "response-stale":
				r.posted[stale] = append(r.posted[stale], body)
				rt.Response(stale, []byte(body))
			case "response-unknown":
				rt.Response("22222222-2222-2222-2222-222222222222", []byte(body))
			case "error":
				id := cur
				if id == "" {
					id = "11111111-1111-1111-1111-111111111111"
				}
				r.posted[id] = append(r.posted[id], body)
				rt.Error(id, "Function.Scripted", []byte(body))
			case "init-error":
				r.posted["init"] = append(r.posted["init"], body)
				rt.InitError("Runtime.Scripted", []byte(body))
			case "restore-next":
				rt.RestoreNext()
			case "restore-error":
				rt.RestoreError("Runtime.Scripted")
			case "unknown-route":
				rt.Raw("raw", "GET", "/2018-06-01/runtime/no/such/route", nil, nil)
			case "wrong-method":
				rt.Raw("raw", "DELETE", "/2018-06-01/runtime/invocation/next", nil, nil)
			}
		}
		terminal(rt, r, p.term, healthy)
	}
	for i, progs := range s.exts {
		i, progs := i, progs
		cfg.Exts = append(cfg.Exts, stack.ExtSpec{Name: fmt.Sprintf("e%d", i), Body: func(x *stack.Actor) {
			r := *rp
			healthy := func() {
				if x.ExtID == "" {
					if c := x.Register([]string{"INVOKE", "SHUTDOWN"}, ""); c.Status != 200 {
						x.Exit(1)
					}
				}
				for {
					ev := x.ExtNext()
					if ev.Status != 200 {
						x.Exit(1)
					}
					if stack.EventType(ev) == "SHUTDOWN" {
						x.Exit(0)
					}
				}
			}
			if x.Gen > len(progs) {
				healthy()
			}
			p := progs[x.Gen-1]
			for _, c := range p.calls {
				switch c {
				case "register":
					x.Register([]string{"INVOKE", "SHUTDOWN"}, "")
				case "register-bogus-event":
					x.Register([]string{"INVOKE", "BOGUS"}, "")
				case "register-again":
					x.RegisterAs(fmt.Sprintf("e%d", i), []string{"SHUTDOWN"}, "accountId")
				case "next":
					ev := x.ExtNext()
					if ev.Status == 200 && stack.EventType(ev) == "SHUTDOWN" {
						r.doneFaulty()
						x.Exit(0)
					}
				case "next-bad-id":
					x.Raw("raw", "GET", "/2020-01-01/extension/event/next", map[string]string{"Lambda-Extension-Identifier": "not-a-uuid"}, nil)
				case "init-error":
					x.ExtInitError("Extension.Scripted")
				case "exit-error":
					x.ExtExitError("Extension.Scripted")
				case "unknown-route":
					x.Raw("raw", "POST", "/2020-01-01/extension/no/such", nil, nil)
				}
			}
			terminal(x, r, p.term, healthy)
		}})
	}
	return cfg
}

func (s scen) run(c *hx.Ctx) *hx.ScenarioResult {
	var r *rec
	cfg := s.config(&r)
	cleanup := cfg.Prepare()
	defer cleanup()
	n := s.ninv
	if n == 0 {
		n = 7
	}
	body := func() {
		r = &rec{posted: map[string][]string{}, idOf: map[string]string{}}
		// every faulty script counts until it is over
		r.faulty = len(s.gens)
		for _, e := range s.exts {
			r.faulty += len(e)
		}
		sched.Cur().Values["rec"] = r
		w := stack.NewWorld(cfg)
		for i := 0; i < n; i++ {
			w.Invoke(echo(i), nil)
			vtime.Sleep(200 * time.Millisecond)
		}
		sched.Finish()
	}
	return hx.ExploreScenario(c, "C07", s.name(), sched.Options{Bound: s.bound, MaxSteps: 200000, BoundAll: true, NoEarlyClock: true, HoldBack: true}, body, s.judge)
}

var timeoutText = fmt.Sprintf("Task timed out after %d.00 seconds", T)

func (s scen) judge(e *sched.Exec) (string, string, *sched.Failure) {
	w := stack.WorldOf(e)
	if e.Crash != nil {
		return stack.CrashFailure(e, "1")
	}
	if e.Status() != sched.Finished {
		return e.Status().String(), "", &sched.Failure{Clause: "2", Sig: "hang", Msg: "an invocation never got an answer: " + fmt.Sprint(e.Blocked) + "\n" + w.Render(false)}
	}
	r := e.Values["rec"].(*rec)
	var fail *sched.Failure
	failf := func(clause, sig, f string, a ...any) {
		if fail == nil {
			fail = &sched.Failure{Clause: clause, Sig: sig, Msg: fmt.Sprintf(f, a...) + "\n" + w.Render(false)}
		}
	}
	var outs []string
	laterFailures := 0
	for i, inv := range w.Invokes {
		// (2) bounded answer (virtual clock)
		if el := inv.AnsNs - inv.IssuedNs; el > int64(T)*1e9+allowanceNs {
			failf("2", "late-answer", "invocation %d answered after %d ms, bound is %d ms", i, el/1e6, (int64(T)*1e9+allowanceNs)/1e6)
		}
		if inv.Aborted {
			failf("1", "front-end-panic", "invocation %d: the front-end handler panicked: %s", i, inv.Panic)
		}
		// (3) body: posted for that invocation, or platform-made
		b := string(inv.Body)
		id := r.idOf[string(echo(i))]
		class := ""
		switch {
		case b == timeoutText:
			class = "timeout"
		case b == "" && inv.Status >= 400 && id == "":
			// failure status only: the invocation was never delivered to a runtime (the environment failed to come up)
			class = "empty-failure"
		case isPlatformError(inv.Body):
			class = "platform-error"
		default:
			for _, p := range r.posted[id] {
				if p == b && id != "" {
					class = "posted"
				}
			}
			for _, p := range r.posted["init"] {
				if p == b {
					class = "posted-init-error"
				}
			}
		}
		if class == "" {
			failf("3", fmt.Sprintf("foreign-body:status=%d", inv.Status), "invocation %d: status %d body %q is neither a payload the runtime posted for that invocation (id %s: %v) nor a platform-generated message", i, inv.Status, trunc(inv.Body), id, r.posted[id])
			class = "foreign"
		}
		ok := inv.Status == 200 && b == string(echo(i))
		outs = append(outs, class)
		// (4) once everybody behaves, at most one further invocation fails
		if r.faulty <= 0 && inv.IssuedNs > r.behaveNs && !ok {
			laterFailures++
		}
	}
	if r.faulty > 0 {
		// some faulty script never ended within the horizon (e.g. parked inside next for ever): nothing to demand for (4)
	} else if laterFailures > 1 {
		failf("4", fmt.Sprintf("slow-recovery:%d", laterFailures), "%d invocations failed although every process behaved correctly from %d ms on", laterFailures, r.behaveNs/1e6)
	}
	return strings.Join(outs, ","), w.Render(false), fail
}

func isPlatformError(b []byte) bool {
	var m map[string]any
	if json.Unmarshal(b, &m) != nil {
		return false
	}
	_, a := m["errorType"]
	_, c := m["errorMessage"]
	return a && c
}

func trunc(b []byte) string {
	if len(b) > 120 {
		return string(b[:120]) + "..."
	}
	return string(b)
}

func programs(alpha []string, maxCalls int) []program {
	var out []program
	var gen func(cur []string)
	gen = func(cur []string) {
		for _, t := range terminals {
			out = append(out, program{calls: append([]string{}, cur...), term: t})
		}
		if len(cur) == maxCalls {
			return
		}
		for _, a := range alpha {
			gen(append(cur, a))
		}
	}
	gen(nil)
	return out
}

func init() {
	hx.Register(&hx.Property{ID: "C07", Scenarios: func(tier string) []hx.Scenario {
		var ss []scen
		rtMax, extMax := 2, 2
		if tier == "thorough" {
			rtMax = 3
		}
		// (a) runtime scripts alone
		for _, p := range programs(rtAlphabet, rtMax) {
			if len(p.calls) == 0 && p.term == "loop" {
				continue
			}
			ss = append(ss, scen{gens: []program{p}})
		}
		// (b) one extension's scripts, healthy runtime and a few faulty runtimes
		rtFew := []program{{calls: []string{"next"}, term: "exit1"}, {calls: []string{"init-error"}, term: "stall"}, {calls: []string{"next", "response"}, term: "sig9"}}
		for _, p := range programs(extAlphabet, extMax) {
			ss = append(ss, scen{exts: [][]program{{p}}})
			if tier == "thorough" || len(p.calls) <= 1 {
				for _, rp := range rtFew {
					ss = append(ss, scen{gens: []program{rp}, exts: [][]program{{p}}})
				}
			}
		}
		// (c) two extensions, reduced alphabet
		red := []string{"register", "next", "init-error", "exit-error"}
		pc := programs(red, 1)
		if tier == "thorough" {
			pc = programs(red, 2)
		}
		for i, a := range pc {
			for j, b := range pc {
				if tier == "quick" && (i+j)%3 != 0 {
					continue
				}
				ss = append(ss, scen{exts: [][]program{{a}, {b}}})
			}
		}
		// (d) chains of faulty generations followed by healthy ones
		chain := programs(rtAlphabet, 1)
		for i, a := range chain {
			for j, b := range chain {
				if tier == "quick" && (i*7+j)%11 != 0 {
					continue
				}
				ss = append(ss, scen{gens: []program{a, b}, ninv: 8})
			}
		}
		// a selection with one deviation
		if tier == "thorough" {
			for _, p := range programs(rtAlphabet, 1) {
				ss = append(ss, scen{gens: []program{p}, bound: 1, ninv: 4})
			}
			for _, p := range programs(extAlphabet, 1) {
				ss = append(ss, scen{exts: [][]program{{p}}, bound: 1, ninv: 4})
			}
		} else {
			for _, p := range []program{{[]string{"next"}, "exit1"}, {[]string{"init-error"}, "loop"}, {[]string{"response-stale"}, "loop"}, {[]string{"next", "error"}, "stall"}, {nil, "exit1"}, {nil, "sig9"}, {[]string{"unknown-route"}, "exit0"}} {
				ss = append(ss, scen{gens: []program{p}, bound: 1, ninv: 4})
			}
		}
		var out []hx.Scenario
		for _, s := range ss {
			s := s
			out = append(out, hx.Scenario{Name: s.name(), Run: s.run})
		}
		return out
	}})
}
