package c16

import (
	"fmt"
	"sort"
	"strings"

	"go.amzn.com/verifh/hx"
	"go.amzn.com/verifh/stack"
	"go.amzn.com/verifrt/sched"
)

// The route a customer variable really takes in the emulator: process environment of aws-lambda-rie ->
// InitHandler (splits os.Environ()) -> rapid -> environment of the runtime and of the extension processes.
// Full closed emulator on the simulated kernel; the observation is the environment the supervisor is asked to
// start each process with.

var feValues = map[string]string{
	"CUSTOMER_PLAIN":       "plain",
	"CUSTOMER_EQ":          "a=b=c",
	"CUSTOMER_B64":         "dGVzdA==",
	"CUSTOMER_LEADING_EQ":  "=x",
	"CUSTOMER_ONLY_EQ":     "=",
	"CUSTOMER_EMPTY":       "",
	"CUSTOMER_SPACES":      " a b ",
	"_CUSTOMER_UNDERSCORE": "u=v",
}

func frontEndScenario() hx.Scenario {
	name := "front-end/os-environ-forwarded-through-InitHandler"
	return hx.Scenario{Name: name, Run: func(c *hx.Ctx) *hx.ScenarioResult {
		cfg := &stack.Config{TimeoutSec: 3, Env: feValues, Handler: "app.overrideHandler"} // the handler given on the command line
		type obs struct{ rt, ext map[string]string }
		var o *obs
		cfg.Runtime = func(rt *stack.Actor) {
			o.rt = rt.Env
			stack.EchoRuntime(nil)(rt)
		}
		cfg.Exts = []stack.ExtSpec{{Name: "e0", Body: func(x *stack.Actor) {
			o.ext = x.Env
			stack.LoopExt([]string{"INVOKE", "SHUTDOWN"}, false)(x)
		}}}
		cleanup := cfg.Prepare()
		defer cleanup()
		body := func() {
			o = &obs{}
			sched.Cur().Values["obs"] = o
			w := stack.NewWorld(cfg)
			w.Invoke([]byte(`{}`), nil)
			sched.Finish()
		}
		judge := func(e *sched.Exec) (string, string, *sched.Failure) {
			if e.Crash != nil {
				return stack.CrashFailure(e, "r1-runtime-overlay")
			}
			ob, _ := e.Values["obs"].(*obs)
			if e.Status() != sched.Finished || ob == nil || ob.rt == nil || ob.ext == nil {
				return "no-observation", "", &sched.Failure{Clause: "engine", Sig: "no-observation", Msg: "the runtime or the extension was never started: " + e.Status().String()}
			}
			var fail *sched.Failure
			failf := func(clause, sig, f string, a ...any) {
				if fail == nil {
					fail = &sched.Failure{Clause: clause, Sig: sig, Msg: fmt.Sprintf(f, a...)}
				}
			}
			var keys []string
			for k := range feValues {
				keys = append(keys, k)
			}
			sort.Strings(keys)
			var out []string
			for _, k := range keys {
				want := feValues[k]
				got, ok := ob.rt[k]
				if !ok || got != want {
					failf("r1-runtime-overlay", "runtime-env:forwarded-value-changed:"+k, "runtime environment: %s=%q (present=%v), the emulator's own environment has %q", k, got, ok, want)
				}
				g2, ok2 := ob.ext[k]
				if strings.HasPrefix(k, "_") {
					if ok2 {
						failf("e1-extension-view", "agent-env:underscore-name:"+k, "extension environment contains %s=%q", k, g2)
					}
				} else if !ok2 || g2 != want {
					failf("e1-extension-view", "agent-env:forwarded-value-changed:"+k, "extension environment: %s=%q (present=%v), the emulator's own environment has %q", k, g2, ok2, want)
				}
				out = append(out, fmt.Sprintf("%s:%v/%v", k, got == want, g2 == want))
			}
			// reserved platform layer on the real route: function name and version as the front end initialised them
			for k, want := range map[string]string{"AWS_LAMBDA_FUNCTION_NAME": "test_function", "AWS_LAMBDA_FUNCTION_VERSION": "$LATEST"} {
				if got := ob.rt[k]; got != want {
					failf("r1-runtime-overlay", "runtime-env:wrong-value:reserved-platform:"+k, "runtime environment: %s=%q, the emulator was initialised with %q", k, got, want)
				}
				if got := ob.ext[k]; got != want {
					failf("e1-extension-view", "agent-env:wrong-value:reserved-platform:"+k, "extension environment: %s=%q, the emulator was initialised with %q", k, got, want)
				}
			}
			// the handler override of the emulator's command line is the reserved _HANDLER of the runtime (extensions never see it)
			if got := ob.rt["_HANDLER"]; got != "app.overrideHandler" {
				failf("r1-runtime-overlay", "runtime-env:wrong-value:reserved-runtime:_HANDLER", "runtime environment: _HANDLER=%q, the emulator was started with the handler %q", got, "app.overrideHandler")
			}
			if got, ok := ob.ext["_HANDLER"]; ok {
				failf("e1-extension-view", "agent-env:underscore-name:_HANDLER", "extension environment contains _HANDLER=%q", got)
			}
			if ob.rt["AWS_LAMBDA_RUNTIME_API"] == "" || ob.rt["AWS_LAMBDA_RUNTIME_API"] != ob.ext["AWS_LAMBDA_RUNTIME_API"] {
				failf("a1-same-api-address", "api-address-differs", "runtime sees Runtime API address %q, the extension %q", ob.rt["AWS_LAMBDA_RUNTIME_API"], ob.ext["AWS_LAMBDA_RUNTIME_API"])
			}
			return strings.Join(out, ","), strings.Join(out, ","), fail
		}
		return hx.ExploreScenario(c, propID, name, sched.Options{Bound: 0, MaxSteps: 100000, BoundAll: true, NoEarlyClock: true}, body, judge)
	}}
}
