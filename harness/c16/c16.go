// Package c16 decides property C16 (process environment layering) on the route "direct calls of
// env.Environment": bounded-exhaustive enumeration of customer maps and init parameters, compared with an
// independent specification written from the property statement.
//
// Statement: "The environment given to the runtime is the customer-supplied variables overlaid, in this
// order, by unreserved platform defaults, credentials, reserved runtime variables and reserved platform
// variables, so that handler, function name and version, credentials and the Runtime API address cannot be
// overridden by customer values, and every variable not shadowed arrives unchanged, including values
// containing '='. Extensions receive customer, credential and platform variables only, never names
// starting with '_' nor the X-Ray exclusions, and always the same Runtime API address as the runtime."
//
// Clauses:
//
//	r1  RuntimeExecEnv == overlay(customer, unreserved defaults, credentials, runtime vars, platform vars)
//	r2  (consequence, reported separately) a customer value never replaces handler / function name /
//	    version / credentials / Runtime API address
//	e1  AgentExecEnv == overlay(customer, credentials, platform vars) minus '_' names minus X-Ray exclusions
//	a1  AWS_LAMBDA_RUNTIME_API is the stored address in both environments
//
// Not covered here (added by the stack route later): that the address is the one the server listens on,
// and the Env of the supervisor Exec requests.
package c16

import (
	"encoding/json"
	"fmt"
	"os"
	"sort"
	"strings"
	"time"

	"go.amzn.com/lambda/rapidcore/env"
	"go.amzn.com/verifh/hx"
)

const propID = "C16"

// ---- the key universe, written down from the Lambda documentation / the property text ------------------

type keyClass string

const (
	kcPlatform   keyClass = "reserved-platform"
	kcRuntime    keyClass = "reserved-runtime"
	kcCredential keyClass = "credential"
	kcUnreserved keyClass = "unreserved-platform"
	kcInternal   keyClass = "internal"
	kcUnderscore keyClass = "underscore"
	kcExcluded   keyClass = "extension-excluded"
	kcPlain      keyClass = "plain"
)

const (
	kAPI     = "AWS_LAMBDA_RUNTIME_API"
	kHandler = "_HANDLER"
	kFnName  = "AWS_LAMBDA_FUNCTION_NAME"
	kFnVer   = "AWS_LAMBDA_FUNCTION_VERSION"
	kCredURI = "AWS_CONTAINER_CREDENTIALS_FULL_URI"
	kCredTok = "AWS_CONTAINER_AUTHORIZATION_TOKEN"
)

var platformKeys = []string{"AWS_REGION", "AWS_DEFAULT_REGION", kFnName, "AWS_LAMBDA_FUNCTION_MEMORY_SIZE", kFnVer, kAPI, "TZ"}
var runtimeKeys = []string{kHandler, "AWS_EXECUTION_ENV", "AWS_LAMBDA_LOG_GROUP_NAME", "AWS_LAMBDA_LOG_STREAM_NAME", "LAMBDA_TASK_ROOT", "LAMBDA_RUNTIME_DIR"}
var credentialKeys = []string{"AWS_ACCESS_KEY_ID", "AWS_SECRET_ACCESS_KEY", "AWS_SESSION_TOKEN", kCredURI, kCredTok}
var unreservedKeys = []string{"AWS_XRAY_DAEMON_ADDRESS"}
var internalKeys = []string{"_LAMBDA_SB_ID", "_LAMBDA_LOG_FD", "_LAMBDA_SHARED_MEM_FD", "_LAMBDA_CONTROL_SOCKET", "_LAMBDA_DIRECT_INVOKE_SOCKET",
	"_LAMBDA_RUNTIME_LOAD_TIME", "_LAMBDA_CONSOLE_SOCKET", "_X_AMZN_TRACE_ID", "_LAMBDA_TELEMETRY_API_PASSPHRASE"}
var underscoreKeys = []string{"_X"}

// the X-Ray exclusions of the extension view (the last one is covered by the '_' rule as well)
var excludedKeys = []string{"AWS_XRAY_CONTEXT_MISSING", "_AWS_XRAY_DAEMON_ADDRESS", "_AWS_XRAY_DAEMON_PORT", "_LAMBDA_TELEMETRY_LOG_FD"}
var plainKeys = []string{"FOO", "my.key-1"}

type ckey struct {
	name  string
	class keyClass
}

var universe = func() []ckey {
	var u []ckey
	add := func(c keyClass, ks []string) {
		for _, k := range ks {
			u = append(u, ckey{k, c})
		}
	}
	add(kcPlatform, platformKeys)
	add(kcRuntime, runtimeKeys)
	add(kcCredential, credentialKeys)
	add(kcUnreserved, unreservedKeys)
	add(kcInternal, internalKeys)
	add(kcUnderscore, underscoreKeys)
	add(kcExcluded, excludedKeys)
	add(kcPlain, plainKeys)
	return u
}()

var classOf = func() map[string]keyClass {
	m := map[string]keyClass{}
	for _, k := range universe {
		m[k.name] = k.class
	}
	return m
}()

var valueNames = []string{"empty", "plain", "equals", "newline"}

func customerValue(key string, vc int) string {
	switch vc {
	case 0:
		return ""
	case 1:
		return "cust-" + key
	case 2:
		return "cust=" + key + "=x="
	}
	return "cust\n" + key + "\n"
}

// ---- configuration ---------------------------------------------------------------------------------------

type config struct {
	HandlerMode int               `json:"handler_mode"` // 0 unset, 1 via init, 2 via SetHandler, 3 both
	FnName      bool              `json:"function_name_set"`
	FnVer       bool              `json:"function_version_set"`
	TokenMode   bool              `json:"credentials_by_token"`
	EmptyCreds  bool              `json:"credentials_empty"` // key mode with empty key / secret / session (no credentials in the emulator's environment)
	Addr        string            `json:"runtime_api_address"`
	Inherited   map[string]string `json:"inherited_process_env"`
}

type input struct {
	Customer map[string]string `json:"customer"`
	Cfg      config            `json:"config"`
}

const (
	handlerInit     = "init.handler=main"
	handlerOverride = "override.handler"
	fnName          = "fn=name"
	fnVer           = "$LATEST=1"
	awsKey          = "AKIA=KEY"
	awsSecret       = "sec/ret=="
	awsSession      = "session\ntoken"
	credHost        = "127.0.0.1"
	credPort        = 9123
	credToken       = "tok=en"
)

var addrs = []string{"127.0.0.1:9001", "host.example:80=x"}

// keys of the emulator's own process environment whose presence is varied; everything else that
// NewEnvironment would inherit is removed for the duration of a scenario
var inheritedKeys = []string{"AWS_REGION", kFnName, kAPI, kHandler, "LAMBDA_TASK_ROOT", "AWS_XRAY_DAEMON_ADDRESS", "_LAMBDA_SB_ID", "TZ"}

func inheritedValue(k string) string { return "inherited=" + k }

// ---- the specification -----------------------------------------------------------------------------------

type layers struct {
	unreserved, credentials, runtime, platform map[string]string
	handlerEither                              bool // both handler sources given: either value satisfies the statement
}

func specLayers(c config) layers {
	l := layers{map[string]string{}, map[string]string{}, map[string]string{}, map[string]string{}, false}
	inh := func(dst map[string]string, keys []string) {
		for _, k := range keys {
			if v, ok := c.Inherited[k]; ok {
				dst[k] = v
			}
		}
	}
	inh(l.unreserved, unreservedKeys)
	inh(l.runtime, runtimeKeys)
	inh(l.platform, platformKeys)
	if c.TokenMode {
		l.credentials[kCredURI] = fmt.Sprintf("http://%s:%d/", credHost, credPort) // prefix; see matchURI
		l.credentials[kCredTok] = credToken
	} else {
		l.credentials["AWS_ACCESS_KEY_ID"] = awsKey
		l.credentials["AWS_SECRET_ACCESS_KEY"] = awsSecret
		l.credentials["AWS_SESSION_TOKEN"] = awsSession
		if c.EmptyCreds {
			l.credentials["AWS_ACCESS_KEY_ID"], l.credentials["AWS_SECRET_ACCESS_KEY"], l.credentials["AWS_SESSION_TOKEN"] = "", "", ""
		}
	}
	switch c.HandlerMode {
	case 1:
		l.runtime[kHandler] = handlerInit
	case 2:
		l.runtime[kHandler] = handlerOverride
	case 3:
		l.runtime[kHandler] = handlerInit
		l.handlerEither = true
	}
	if c.FnName {
		l.platform[kFnName] = fnName
	}
	if c.FnVer {
		l.platform[kFnVer] = fnVer
	}
	l.platform[kAPI] = c.Addr
	return l
}

func overlay(ms ...map[string]string) map[string]string {
	out := map[string]string{}
	for _, m := range ms {
		for k, v := range m {
			out[k] = v
		}
	}
	return out
}

func specRuntime(customer map[string]string, l layers) map[string]string {
	return overlay(customer, l.unreserved, l.credentials, l.runtime, l.platform)
}

func isXRayExclusion(k string) bool {
	for _, e := range excludedKeys {
		if e == k {
			return true
		}
	}
	return false
}

func specAgent(customer map[string]string, l layers) map[string]string {
	out := map[string]string{}
	for k, v := range overlay(customer, l.credentials, l.platform) {
		if strings.HasPrefix(k, "_") || isXRayExclusion(k) {
			continue
		}
		out[k] = v
	}
	return out
}

// ---- running the implementation --------------------------------------------------------------------------

func runImpl(in input) (rt, ag map[string]string) {
	c := in.Cfg
	e := env.NewEnvironment()
	// order of the real call sites: SandboxContext.Init (SetHandler, address), then rapid's acceptInitRequest
	if c.HandlerMode&2 != 0 {
		e.SetHandler(handlerOverride)
	}
	e.StoreRuntimeAPIEnvironmentVariable(c.Addr)
	h, n, v := "", "", ""
	if c.HandlerMode&1 != 0 {
		h = handlerInit
	}
	if c.FnName {
		n = fnName
	}
	if c.FnVer {
		v = fnVer
	}
	// the implementation must not see (or alter) the map the oracle uses
	cust := make(map[string]string, len(in.Customer))
	for k, val := range in.Customer {
		cust[k] = val
	}
	if c.TokenMode {
		e.StoreEnvironmentVariablesFromInitForInitCaching(credHost, credPort, cust, h, n, v, credToken)
	} else if c.EmptyCreds {
		e.StoreEnvironmentVariablesFromInit(cust, h, "", "", "", n, v)
	} else {
		e.StoreEnvironmentVariablesFromInit(cust, h, awsKey, awsSecret, awsSession, n, v)
	}
	return e.RuntimeExecEnv(), e.AgentExecEnv()
}

type viol struct{ clause, sig, msg string }

// protectedKeys: what the statement names as not overridable by the customer
func protectedKey(k string) bool {
	switch k {
	case kHandler, kFnName, kFnVer, kAPI, "AWS_ACCESS_KEY_ID", "AWS_SECRET_ACCESS_KEY", "AWS_SESSION_TOKEN", kCredURI, kCredTok:
		return true
	}
	return false
}

func compare(view, clause string, got, want map[string]string, in input, l layers) []viol {
	var vs []viol
	keys := map[string]bool{}
	for k := range got {
		keys[k] = true
	}
	for k := range want {
		keys[k] = true
	}
	sorted := make([]string, 0, len(keys))
	for k := range keys {
		sorted = append(sorted, k)
	}
	sort.Strings(sorted)
	for _, k := range sorted {
		g, gok := got[k]
		w, wok := want[k]
		if gok && wok {
			if g == w {
				continue
			}
			if k == kHandler && l.handlerEither && g == handlerOverride {
				continue
			}
			if k == kCredURI && in.Cfg.TokenMode && strings.HasPrefix(g, w) && g != in.Customer[k] {
				continue
			}
		}
		cv, cok := in.Customer[k]
		kc := classOf[k]
		switch {
		case gok && wok && cok && g == cv && protectedKey(k):
			vs = append(vs, viol{"r2-reserved-not-overridable", fmt.Sprintf("%s-env:customer-overrides:%s", view, k),
				fmt.Sprintf("%s environment: the customer value %q of %s replaced the reserved value %q", view, cv, k, w)})
		case gok && wok:
			vs = append(vs, viol{clause, fmt.Sprintf("%s-env:wrong-value:%s:%s", view, kc, k),
				fmt.Sprintf("%s environment: %s=%q, the ordered overlay of the statement gives %q (customer value %q, given=%v)", view, k, g, w, cv, cok)})
		case gok && !wok:
			vs = append(vs, viol{clause, fmt.Sprintf("%s-env:unexpected:%s:%s", view, kc, k),
				fmt.Sprintf("%s environment contains %s=%q, which the statement excludes", view, k, g)})
		default:
			vs = append(vs, viol{clause, fmt.Sprintf("%s-env:missing:%s:%s", view, kc, k),
				fmt.Sprintf("%s environment lacks %s (the statement gives %q)", view, k, w)})
		}
	}
	return vs
}

func judge(in input) (rt, ag map[string]string, vs []viol) {
	rt, ag = runImpl(in)
	l := specLayers(in.Cfg)
	vs = append(vs, compare("runtime", "r1-runtime-overlay", rt, specRuntime(in.Customer, l), in, l)...)
	vs = append(vs, compare("agent", "e1-extension-view", ag, specAgent(in.Customer, l), in, l)...)
	if rt[kAPI] != in.Cfg.Addr || ag[kAPI] != in.Cfg.Addr {
		vs = append(vs, viol{"a1-same-api-address", "api-address-differs",
			fmt.Sprintf("Runtime API address stored %q, runtime sees %q, extensions see %q", in.Cfg.Addr, rt[kAPI], ag[kAPI])})
	}
	return
}

// outcomeClasses describes, per customer key, what the implementation did with it.
func outcomeClasses(in input, rt, ag map[string]string, add func(string)) {
	for k, cv := range in.Customer {
		r, a := "absent", "absent"
		if v, ok := rt[k]; ok {
			r = "shadowed"
			if v == cv {
				r = "arrives"
			}
		}
		if v, ok := ag[k]; ok {
			a = "shadowed"
			if v == cv {
				a = "arrives"
			}
		}
		add(fmt.Sprintf("%s/rt=%s/ext=%s", classOf[k], r, a))
	}
}

// ---- enumeration -----------------------------------------------------------------------------------------

// customerMaps calls yield for every single key, every pair of keys (all value combinations) and the
// all-keys maps.
func customerMaps(yield func(map[string]string) bool) {
	nv := len(valueNames)
	for i, a := range universe {
		for va := 0; va < nv; va++ {
			if !yield(map[string]string{a.name: customerValue(a.name, va)}) {
				return
			}
		}
		for _, b := range universe[i+1:] {
			for va := 0; va < nv; va++ {
				for vb := 0; vb < nv; vb++ {
					if !yield(map[string]string{a.name: customerValue(a.name, va), b.name: customerValue(b.name, vb)}) {
						return
					}
				}
			}
		}
	}
	for rot := 0; rot < 2*nv; rot++ {
		m := map[string]string{}
		for i, k := range universe {
			vc := rot
			if rot >= nv {
				vc = (i + rot) % nv
			}
			m[k.name] = customerValue(k.name, vc)
		}
		if !yield(m) {
			return
		}
	}
	yield(map[string]string{})
}

func inheritedSets(tier string) []map[string]string {
	var out []map[string]string
	if tier != "thorough" {
		all := map[string]string{}
		for _, k := range inheritedKeys {
			all[k] = inheritedValue(k)
		}
		return []map[string]string{{}, all, {kHandler: inheritedValue(kHandler), "AWS_XRAY_DAEMON_ADDRESS": inheritedValue("AWS_XRAY_DAEMON_ADDRESS")}}
	}
	for mask := 0; mask < 1<<len(inheritedKeys); mask++ {
		m := map[string]string{}
		for i, k := range inheritedKeys {
			if mask&(1<<i) != 0 {
				m[k] = inheritedValue(k)
			}
		}
		out = append(out, m)
	}
	return out
}

// every name NewEnvironment looks up in the process environment
func allInheritable() []string {
	var ks []string
	ks = append(ks, platformKeys...)
	ks = append(ks, runtimeKeys...)
	ks = append(ks, unreservedKeys...)
	ks = append(ks, internalKeys...)
	return ks
}

// withProcessEnv runs f with exactly `set` present among the inheritable names and restores the
// process environment afterwards.
func withProcessEnv(set map[string]string, f func()) {
	saved := map[string]*string{}
	for _, k := range allInheritable() {
		if v, ok := os.LookupEnv(k); ok {
			v := v
			saved[k] = &v
		} else {
			saved[k] = nil
		}
		os.Unsetenv(k)
	}
	for k, v := range set {
		os.Setenv(k, v)
	}
	defer func() {
		for k, v := range saved {
			if v == nil {
				os.Unsetenv(k)
			} else {
				os.Setenv(k, *v)
			}
		}
	}()
	f()
}

func init() {
	hx.Register(&hx.Property{ID: propID, Scenarios: scenarios})
}

func scenarios(tier string) []hx.Scenario {
	var scen []hx.Scenario
	handlerNames := []string{"unset", "init", "override", "both"}
	for hm := 0; hm < 4; hm++ {
		for fn := 0; fn < 4; fn++ {
			for tok := 0; tok < 3; tok++ {
				hm, fn, tok := hm, fn, tok
				if tok == 2 && (hm != 0 || fn != 3) {
					continue // empty credentials: one configuration
				}
				name := fmt.Sprintf("direct/handler=%s/fn-name=%v/fn-version=%v/cred-token=%v", handlerNames[hm], fn&1 != 0, fn&2 != 0, tok == 1)
				if tok == 2 {
					name += "/cred-empty=true"
				}
				scen = append(scen, hx.Scenario{Name: name, Run: func(c *hx.Ctx) *hx.ScenarioResult {
					if c.Replay != nil {
						return replay(c, name)
					}
					return enumerate(c, name, tier, config{HandlerMode: hm, FnName: fn&1 != 0, FnVer: fn&2 != 0, TokenMode: tok == 1, EmptyCreds: tok == 2})
				}})
			}
		}
	}
	scen = append(scen, frontEndScenario())
	return scen
}

const maxViolPerSig = 2

func enumerate(c *hx.Ctx, name, tier string, base config) *hx.ScenarioResult {
	t0 := time.Now()
	res := &hx.ScenarioResult{Name: name, Outcomes: map[string]int64{}}
	distinct := map[string]struct{}{}
	perSig := map[string]int{}
	stopped := false
	var n int64
	cfgClass := fmt.Sprintf("h%d", base.HandlerMode)
	for _, inh := range inheritedSets(tier) {
		if stopped {
			break
		}
		withProcessEnv(inh, func() {
			for _, addr := range addrs {
				cfg := base
				cfg.Addr, cfg.Inherited = addr, inh
				inhClass := fmt.Sprintf("%s/inh%d", cfgClass, len(inh))
				customerMaps(func(m map[string]string) bool {
					n++
					if n%2048 == 0 && !c.Deadline.IsZero() && time.Now().After(c.Deadline) {
						stopped = true
						return false
					}
					in := input{Customer: m, Cfg: cfg}
					rt, ag, vs := judge(in)
					if len(m) <= 2 {
						outcomeClasses(in, rt, ag, func(cl string) {
							key := inhClass + "/" + cl
							if _, ok := distinct[key]; !ok {
								distinct[key] = struct{}{}
								if len(res.Samples) < 4 && len(distinct)%7 == 3 {
									res.Samples = append(res.Samples, map[string]any{"scenario": name, "input": in, "runtime_env": rt, "extension_env": ag})
								}
							}
							res.Outcomes[cl]++
						})
					}
					for _, v := range vs {
						perSig[v.sig]++
						if perSig[v.sig] <= maxViolPerSig {
							res.Violations = append(res.Violations, hx.ViolationRec{Property: propID, Scenario: name, Clause: v.clause, Sig: v.sig, Msg: v.msg, Input: in})
						}
					}
					return true
				})
				if stopped {
					return
				}
			}
		})
	}
	res.Evaluations, res.Execs = n, n
	res.Distinct = int64(len(distinct))
	res.Exhaustive = !stopped
	if stopped {
		res.CapHit = "deadline reached inside the enumeration"
	}
	for i := range res.Violations {
		res.Violations[i].Msg += fmt.Sprintf(" [%d inputs of this scenario fail with this signature]", perSig[res.Violations[i].Sig])
	}
	res.WallS = time.Since(t0).Seconds()
	return res
}

func replay(c *hx.Ctx, name string) *hx.ScenarioResult {
	r := &hx.ScenarioResult{Name: name, Evaluations: 1, Execs: 1}
	b, _ := json.Marshal(c.Replay.Input)
	var in input
	if err := json.Unmarshal(b, &in); err != nil {
		fmt.Fprintln(c.Out, "bad replay input:", err)
		return r
	}
	if in.Customer == nil {
		in.Customer = map[string]string{}
	}
	withProcessEnv(in.Cfg.Inherited, func() {
		rt, ag, vs := judge(in)
		l := specLayers(in.Cfg)
		dump := func(title string, m map[string]string) {
			fmt.Fprintln(c.Out, title)
			ks := make([]string, 0, len(m))
			for k := range m {
				ks = append(ks, k)
			}
			sort.Strings(ks)
			for _, k := range ks {
				fmt.Fprintf(c.Out, "    %s=%q\n", k, m[k])
			}
		}
		fmt.Fprintf(c.Out, "config: %+v\n", in.Cfg)
		dump("customer map:", in.Customer)
		dump("RuntimeExecEnv (implementation):", rt)
		dump("runtime environment (specification):", specRuntime(in.Customer, l))
		dump("AgentExecEnv (implementation):", ag)
		dump("extension environment (specification):", specAgent(in.Customer, l))
		for _, v := range vs {
			fmt.Fprintf(c.Out, "FAIL clause=%s sig=%s: %s\n", v.clause, v.sig, v.msg)
			r.Violations = append(r.Violations, hx.ViolationRec{Property: propID, Scenario: name, Clause: v.clause, Sig: v.sig, Msg: v.msg, Input: in})
		}
		if len(vs) == 0 {
			fmt.Fprintln(c.Out, "PASS (no clause violated on this input)")
		}
	})
	return r
}
