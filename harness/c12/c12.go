// Package c12 decides property C12: every sequence of Runtime API calls is answered as the lifecycle
// automaton prescribes. The real stack (server level, both init modes) is driven call by call by a
// director; a reference automaton written from the statement predicts, for every step, whether the call
// blocks or returns, its status, its error type and (for next) whether the request id is new or the same.
// Illegal calls are self-loops of the reference, so agreement on all continuations is exactly "a following
// legal call behaves as if the illegal one had not happened".
package c12

import (
	"encoding/json"
	"fmt"
	"strings"

	"go.amzn.com/lambda/interop"
	"go.amzn.com/verifh/hx"
	"go.amzn.com/verifh/stack"
	"go.amzn.com/verifrt/sched"
)

var rtSyms = []string{"next", "response", "response-stale", "error", "init-error", "restore-next", "restore-error", "unknown", "wrong-method"}
var platSyms = []string{"INVOKE", "RESTORE"}

// oversizeBody is one byte over the response size limit.
var oversizeBody = make([]byte, 6*1024*1024+100+1)

type state int

const (
	stStarted state = iota
	stInitError
	stParked
	stRunning
	stResponded
	stRestoreParked
	stRestoring
	stRestoreError
)

var stNames = [...]string{"Started", "InitError", "Parked(next)", "Running", "Responded", "Parked(restore/next)", "Restoring", "RestoreError"}

// model is the reference automaton.
type model struct {
	snapshot      bool
	st            state
	invokePending bool // a caller waits, nothing delivered yet
	inFlight      bool // delivered to the runtime, not complete
	restoreWait   bool // a restore request waits for the runtime
	ids           int  // invocations delivered so far
}

type prediction struct {
	blocks bool
	status int
	etype  string
	newID  bool // next: a new invocation
	sameID bool // next: the invocation already delivered
}

func isPlat(s string) bool { return s == "INVOKE" || s == "RESTORE" }

// busy: the single-threaded runtime is parked inside a call
func (m *model) busy() bool { return m.st == stParked || m.st == stRestoreParked }

// allowed reports whether the symbol can occur now (a single-threaded runtime cannot call while
// parked; one invocation / one restore request at a time; snapshot events only in snapshot mode).
func (m *model) allowed(sym string) bool {
	switch sym {
	case "INVOKE":
		return !m.invokePending && !m.inFlight && m.st != stRestoreParked && m.st != stRestoring
	case "RESTORE":
		return m.snapshot && !m.restoreWait && !m.inFlight && !m.invokePending
	}
	if sym == "restore-next" && m.snapshot && m.invokePending && m.st == stStarted {
		// an invocation dispatched into the restore poll is outside the statement (see INVOKE above)
		return false
	}
	return !m.busy()
}

func refuse403() prediction { return prediction{status: 403, etype: "InvalidStateTransition"} }

// call applies a runtime call and returns the prediction for it.
func (m *model) call(sym string) prediction {
	switch sym {
	case "unknown":
		return prediction{status: 404}
	case "wrong-method":
		return prediction{status: 405}
	case "next":
		switch m.st {
		case stStarted, stRestoring:
			if m.st == stRestoring {
				m.restoreWait = false
			}
			if m.invokePending {
				m.invokePending, m.inFlight = false, true
				m.st = stRunning
				m.ids++
				return prediction{status: 200, newID: true}
			}
			m.st = stParked
			return prediction{blocks: true}
		case stRunning:
			return prediction{status: 200, sameID: true}
		case stResponded:
			m.inFlight = false
			m.st = stParked
			return prediction{blocks: true}
		default:
			return refuse403()
		}
	case "response", "error":
		switch m.st {
		case stRunning:
			m.st = stResponded
			return prediction{status: 202}
		case stResponded:
			return refuse403()
		default:
			return prediction{status: 400, etype: "InvalidRequestID"}
		}
	case "response-oversize":
		// one byte over the limit: refused with 413, and the invocation is answered (with the size error) all the same
		switch m.st {
		case stRunning:
			m.st = stResponded
			return prediction{status: 413}
		case stResponded:
			return refuse403()
		default:
			return prediction{status: 400, etype: "InvalidRequestID"}
		}
	case "response-stale", "response-upper":
		// not the id in flight, byte for byte: refused, no state change
		return prediction{status: 400, etype: "InvalidRequestID"}
	case "init-error":
		switch m.st {
		case stStarted:
			m.st = stInitError
			return prediction{status: 202}
		case stRestoring:
			m.st = stRestoreError
			m.restoreWait = false
			return prediction{status: 202}
		default:
			return refuse403()
		}
	case "restore-next":
		if !m.snapshot {
			return prediction{status: 404}
		}
		if m.st == stStarted {
			m.st = stRestoreParked
			return prediction{blocks: true}
		}
		return refuse403()
	case "restore-error":
		if !m.snapshot {
			return prediction{status: 404}
		}
		if m.st == stRestoring {
			m.st = stRestoreError
			m.restoreWait = false
			return prediction{status: 202}
		}
		return refuse403()
	}
	panic(sym)
}

// event applies a platform event; it returns the prediction for the parked call it releases, if any.
func (m *model) event(sym string) *prediction {
	switch sym {
	case "INVOKE":
		if m.st == stParked {
			m.st = stRunning
			m.inFlight = true
			m.ids++
			return &prediction{status: 200, newID: true}
		}
		m.invokePending = true
	case "RESTORE":
		if m.st == stRestoreParked {
			m.st = stRestoring
			m.restoreWait = true
			return &prediction{status: 200}
		}
	}
	return nil
}

type ctl struct {
	cmd     string
	busy    bool
	last    *stack.Call
	curID   string
	prevID  string
	seenIDs map[string]bool
	bodies  map[string]string // request id -> event body as first delivered
	posted  []string          // event payloads posted by the callers, in order
}

func errType(b []byte) string {
	var m struct {
		ErrorType string `json:"errorType"`
	}
	json.Unmarshal(b, &m)
	return m.ErrorType
}

func runSeq(snapshot bool, seq []string) (func(), *stack.Config, *[]string) {
	cfg := &stack.Config{TimeoutSec: 300, InitCaching: snapshot}
	var mismatches []string
	body := func() {
		mismatches = mismatches[:0]
		c := &ctl{seenIDs: map[string]bool{}, bodies: map[string]string{}}
		cfg.Runtime = func(rt *stack.Actor) {
			for {
				sched.Block("await-command", nil, func() bool { return c.cmd != "" })
				cmd := c.cmd
				c.cmd = ""
				var r *stack.Call
				switch cmd {
				case "next":
					r = rt.Next()
				case "response":
					r = rt.Response(orDummy(c.curID), []byte(`"r"`))
				case "response-oversize":
					r = rt.Response(orDummy(c.curID), oversizeBody)
				case "response-upper":
					r = rt.Response(strings.ToUpper(orDummy(c.curID)), []byte(`"upper"`))
				case "response-stale":
					r = rt.Response(orDummy2(c.prevID), []byte(`"stale"`))
				case "error":
					r = rt.Error(orDummy(c.curID), "Function.E", []byte(`{}`))
				case "init-error":
					r = rt.InitError("Runtime.E", []byte(`{}`))
				case "restore-next":
					r = rt.RestoreNext()
				case "restore-error":
					r = rt.RestoreError("Runtime.E")
				case "unknown":
					r = rt.Raw("raw", "GET", "/2018-06-01/runtime/nothing/here", nil, nil)
				case "wrong-method":
					r = rt.Raw("raw", "PUT", "/2018-06-01/runtime/invocation/next", nil, nil)
				}
				c.last = r
				c.busy = false
			}
		}
		w := stack.NewWorld(cfg)
		w.ServerInit(stack.InitParams{Handler: "h", FunctionName: "f", FunctionVersion: "1", TimeoutMs: 300000})
		sched.WaitQuiet()
		m := &model{snapshot: snapshot}
		var parked string // symbol of the parked call
		check := func(i int, sym string, p prediction, r *stack.Call, blocked bool) {
			where := fmt.Sprintf("step %d (%s) in state %s", i, sym, stNames[m.st])
			if p.blocks != blocked {
				mismatches = append(mismatches, fmt.Sprintf("%s: reference says blocks=%v, implementation blocks=%v", where, p.blocks, blocked))
				return
			}
			if blocked {
				return
			}
			if r.Aborted {
				mismatches = append(mismatches, fmt.Sprintf("%s: handler panicked: %s", where, r.Panic))
				return
			}
			if r.Status != p.status {
				mismatches = append(mismatches, fmt.Sprintf("%s: status %d, reference %d", where, r.Status, p.status))
				return
			}
			if p.etype != "" && errType(r.Body) != p.etype {
				mismatches = append(mismatches, fmt.Sprintf("%s: error type %q, reference %q", where, errType(r.Body), p.etype))
			}
			if p.newID {
				if r.ReqID == "" || c.seenIDs[r.ReqID] {
					mismatches = append(mismatches, fmt.Sprintf("%s: expected a new invocation, got request id %q (seen before: %v)", where, r.ReqID, c.seenIDs[r.ReqID]))
				}
				c.seenIDs[r.ReqID] = true
				c.prevID, c.curID = c.curID, r.ReqID
				c.bodies[r.ReqID] = string(r.Body)
				if k := len(c.seenIDs) - 1; k < len(c.posted) && string(r.Body) != c.posted[k] {
					mismatches = append(mismatches, fmt.Sprintf("%s: the invocation carries event %q, the caller posted %q", where, string(r.Body), c.posted[k]))
				}
			}
			if p.sameID && r.ReqID != c.curID {
				mismatches = append(mismatches, fmt.Sprintf("%s: a repeated next must return the same invocation, got %q instead of %q", where, r.ReqID, c.curID))
			}
			if p.sameID && string(r.Body) != c.bodies[c.curID] {
				mismatches = append(mismatches, fmt.Sprintf("%s: a repeated next must return the same invocation, the event body is %q instead of %q", where, string(r.Body), c.bodies[c.curID]))
			}
		}
		for i, sym := range seq {
			if !m.allowed(sym) {
				break
			}
			if isPlat(sym) {
				rel := m.event(sym)
				switch sym {
				case "INVOKE":
					c.posted = append(c.posted, fmt.Sprintf(`{"i":%d}`, i))
					sched.Go("client", func() { w.ServerInvoke([]byte(fmt.Sprintf(`{"i":%d}`, i))) })
				case "RESTORE":
					sched.Go("restorer", func() { w.ServerRestore(&interop.Restore{RestoreHookTimeoutMs: 200000}) })
				}
				sched.WaitQuiet()
				if rel != nil {
					// the parked call must have returned now
					check(i, sym+" releasing "+parked, *rel, c.last, c.busy)
				} else if parked != "" && !c.busy && m.busy() {
					mismatches = append(mismatches, fmt.Sprintf("step %d (%s): the parked %s returned although the reference keeps it blocked", i, sym, parked))
				}
				if !m.busy() {
					parked = ""
				}
				continue
			}
			p := m.call(sym)
			c.cmd, c.busy = sym, true
			sched.WaitQuiet()
			check(i, sym, p, c.last, c.busy)
			if c.busy {
				parked = sym
			}
			if len(mismatches) > 0 {
				break
			}
		}
		sched.Cur().Values["mism"] = append([]string{}, mismatches...)
		sched.Finish()
	}
	return body, cfg, &mismatches
}

func orDummy(id string) string {
	if id == "" {
		return "aaaaaaaa-aaaa-aaaa-aaaa-aaaaaaaaaaaa"
	}
	return id
}
func orDummy2(id string) string {
	if id == "" {
		return "bbbbbbbb-bbbb-bbbb-bbbb-bbbbbbbbbbbb"
	}
	return id
}

func judge(e *sched.Exec) (string, string, *sched.Failure) {
	w := stack.WorldOf(e)
	if e.Crash != nil {
		return stack.CrashFailure(e, "1")
	}
	if e.Status() != sched.Finished {
		return e.Status().String(), "", &sched.Failure{Clause: "engine", Sig: "director-stuck:" + e.Status().String(), Msg: "the director did not finish: " + fmt.Sprint(e.Blocked) + "\n" + w.Render(false)}
	}
	mm, _ := e.Values["mism"].([]string)
	var out []string
	for _, c := range w.Calls {
		if c.Actor == "runtime" {
			st := "blocked"
			if c.Answered >= 0 {
				st = fmt.Sprint(c.Status)
			}
			out = append(out, c.Kind+":"+st)
		}
	}
	o := strings.Join(out, " ")
	if len(mm) > 0 {
		cls := mm[0]
		if i := strings.Index(cls, ":"); i > 0 {
			cls = cls[i+1:]
		}
		f := strings.Fields(mm[0])
		sig := "automaton-mismatch"
		if len(f) > 6 {
			sig += ":" + strings.Trim(f[2], "()") + "@" + strings.TrimSuffix(f[len(f)-1], ":")
		}
		_ = cls
		return o, o, &sched.Failure{Clause: "1", Sig: sigOf(mm[0]), Msg: strings.Join(mm, "\n") + "\n" + w.Render(false)}
	}
	return o, o, nil
}

// sigOf: "step 3 (next) in state Running: status ..." -> "mismatch:next@Running:status"
func sigOf(m string) string {
	a := strings.Index(m, "(")
	b := strings.Index(m, ")")
	c := strings.Index(m, "in state ")
	d := strings.Index(m, ": ")
	if a < 0 || b < 0 || c < 0 || d < 0 {
		return "mismatch"
	}
	kind := strings.Fields(m[d+2:])[0]
	return "mismatch:" + m[a+1:b] + "@" + m[c+9:d] + ":" + kind
}

func init() {
	hx.Register(&hx.Property{ID: "C12", Scenarios: func(tier string) []hx.Scenario {
		maxLen := 5
		if tier == "thorough" {
			maxLen = 6
		}
		var out []hx.Scenario
		full := append(append([]string{}, rtSyms...), platSyms...)
		// second family: the oversize response (one byte over the limit) among the calls of a healthy runtime
		reduced := []string{"next", "response", "response-oversize", "response-upper", "INVOKE"}
		for fi, all := range [][]string{full, reduced} {
			fi, all := fi, all
			for _, snapshot := range []bool{false, true} {
				if fi == 1 && snapshot {
					continue
				}
				for _, a := range all {
					for _, b := range all {
						snapshot, a, b := snapshot, a, b
						if !snapshot && (a == "RESTORE" || b == "RESTORE") {
							continue
						}
						name := fmt.Sprintf("snapshot=%v prefix=%s,%s maxlen=%d", snapshot, a, b, maxLen)
						if fi == 1 {
							name = "oversize-family " + name
						}
						out = append(out, hx.Scenario{Name: name, Run: func(c *hx.Ctx) *hx.ScenarioResult {
							res := &hx.ScenarioResult{Name: name, Exhaustive: true, Outcomes: map[string]int64{}}
							var rec func(seq []string, m model)
							stop := false
							rec = func(seq []string, m model) {
								if stop {
									return
								}
								if len(seq) >= 2 {
									if c.Replay == nil || fmt.Sprint(c.Replay.Input) == strings.Join(seq, ",") {
										body, cfg, _ := runSeq(snapshot, seq)
										cleanup := cfg.Prepare()
										sub := hx.ExploreScenario(c, "C12", strings.Join(seq, ","), sched.Options{Bound: 0, MaxSteps: 50000, BoundAll: true, NoEarlyClock: true}, body, judge)
										cleanup()
										res.Execs += sub.Execs
										res.Evaluations += sub.Execs
										res.States += sub.States
										res.Transitions += sub.Transitions
										for k, v := range sub.Outcomes {
											res.Outcomes[k] += v
										}
										if len(res.Samples) < 2 {
											res.Samples = append(res.Samples, map[string]any{"snapshot": snapshot, "sequence": strings.Join(seq, ",")})
										}
										for _, v := range sub.Violations {
											v.Scenario = name
											v.Input = strings.Join(seq, ",")
											res.Violations = append(res.Violations, v)
											if len(res.Violations) > 20 {
												stop = true
											}
										}
									}
								}
								if len(seq) == maxLen {
									return
								}
								for _, s := range all {
									if len(seq) == 0 && s != a || len(seq) == 1 && s != b {
										continue
									}
									if !m.allowed(s) {
										continue
									}
									m2 := m
									if isPlat(s) {
										m2.event(s)
									} else {
										m2.call(s)
									}
									rec(append(append([]string{}, seq...), s), m2)
								}
							}
							rec(nil, model{snapshot: snapshot})
							res.Distinct = int64(len(res.Outcomes))
							if !c.Deadline.IsZero() && false {
								res.Exhaustive = false
							}
							return res
						}})
					}
				}
			}
		}
		for _, how := range []string{"error-then-exit", "exit", "stall"} {
			out = append(out, generationScenario(how))
		}
		return out
	}})
}
