package c12

import (
	"fmt"

	"go.amzn.com/verifh/hx"
	"go.amzn.com/verifh/stack"
	"go.amzn.com/verifrt/sched"
	"go.amzn.com/verifrt/vtime"
)

// The lifecycle automaton belongs to the runtime process that is talking: after a reset the NEW runtime starts from
// the beginning (its first next blocks until an invocation is available, answers 200 with a fresh request id, its
// response is accepted), whatever state the old one was left in. Full closed emulator; the first generation is ended
// by {runtime posts /error and exits, runtime exits after next, runtime stalls (timeout)}.

func generationScenario(how string) hx.Scenario {
	name := "next-generation-starts-from-the-beginning first-ended-by=" + how
	return hx.Scenario{Name: name, Run: func(c *hx.Ctx) *hx.ScenarioResult {
		cfg := &stack.Config{TimeoutSec: 3}
		cfg.Runtime = func(rt *stack.Actor) {
			for {
				n := rt.Next()
				if n.Status != 200 {
					rt.Stall()
				}
				if rt.Gen == 1 {
					switch how {
					case "error-then-exit":
						rt.Error(n.ReqID, "Function.E", []byte(`{}`))
						rt.Exit(1)
					case "exit":
						rt.Exit(1)
					case "stall":
						rt.Stall()
					}
				}
				if r := rt.Response(n.ReqID, n.Body); r.Status != 202 {
					rt.Stall()
				}
			}
		}
		cleanup := cfg.Prepare()
		defer cleanup()
		body := func() {
			w := stack.NewWorld(cfg)
			sched.Region(false)
			w.Invoke([]byte(`{"n":0}`), nil)
			vtime.Sleep(200 * 1e6)
			w.Invoke([]byte(`{"n":1}`), nil)
			w.Invoke([]byte(`{"n":2}`), nil)
			sched.Finish()
		}
		judge := func(e *sched.Exec) (string, string, *sched.Failure) {
			w := stack.WorldOf(e)
			if e.Crash != nil {
				return stack.CrashFailure(e, "1")
			}
			if e.Status() != sched.Finished {
				return e.Status().String(), "", &sched.Failure{Clause: "1", Sig: "generation-hang", Msg: "an invocation never ended: " + fmt.Sprint(e.Blocked) + "\n" + w.Render(false)}
			}
			var fail *sched.Failure
			failf := func(sig, f string, a ...any) {
				if fail == nil {
					fail = &sched.Failure{Clause: "1", Sig: sig, Msg: fmt.Sprintf(f, a...) + "\n" + w.Render(false)}
				}
			}
			ids := map[string]bool{}
			nextOK, respOK := 0, 0
			for _, k := range w.Calls {
				if k.Actor != "runtime" || k.Gen < 2 {
					continue
				}
				switch k.Kind {
				case "next":
					if k.Answered >= 0 {
						if k.Status != 200 || k.ReqID == "" || ids[k.ReqID] {
							failf("next-of-new-generation", "the new runtime's next got status %d request id %q (fresh id expected)", k.Status, k.ReqID)
						}
						ids[k.ReqID] = true
						nextOK++
					}
				case "response":
					if k.Answered < 0 || k.Status != 202 {
						failf("response-of-new-generation", "the new runtime's response for %s got status %d", k.ReqID, k.Status)
					}
					respOK++
				}
			}
			if nextOK < 2 || respOK < 2 {
				failf("new-generation-not-served", "the runtime of the next generation had %d answered next and %d accepted responses for 2 invocations", nextOK, respOK)
			}
			for i := 1; i <= 2; i++ {
				if inv := w.Invokes[i]; inv.Status != 200 || string(inv.Body) != fmt.Sprintf(`{"n":%d}`, i) {
					failf("new-generation-outcome", "invocation %d (new generation) ended with status %d body %q", i, inv.Status, string(inv.Body))
				}
			}
			out := fmt.Sprintf("next=%d resp=%d", nextOK, respOK)
			return out, w.Render(false), fail
		}
		return hx.ExploreScenario(c, "C12", name, sched.Options{Bound: 0, MaxSteps: 100000, BoundAll: true, NoEarlyClock: true}, body, judge)
	}}
}
