// Package c09 decides property C09: shutdown choreography. TERM before KILL for the runtime (KILL only
// after 30% of the allowed time, immediate KILL when no extension is known), exactly one SHUTDOWN event
// with reason and deadline for every subscribed extension and KILL only at the deadline, immediate KILL
// without event for unsubscribed ones, return only after everything started has been reaped.
package c09

import (
	"encoding/json"
	"fmt"
	"strings"
	"syscall"
	"time"

	"go.amzn.com/lambda/interop"
	"go.amzn.com/verifh/hx"
	"go.amzn.com/verifh/stack"
	"go.amzn.com/verifrt/sched"
	"go.amzn.com/verifrt/vtime"
)

const T = 3
const availMs = 2000

type scen struct {
	rt      string   // term-exits | term-ignored | exited | never-started
	exts    []string // sub-exits | sub-ignores | sub-not-polling | sub-late-polling (busy when the teardown starts, then polls again and again) | unsub | exited | launch-fail
	trigger string   // timeout | failure | explicit | shutdown
	bound   int
}

func (s scen) name() string {
	return fmt.Sprintf("runtime=%s ext=[%s] trigger=%s B=%d", s.rt, strings.Join(s.exts, ","), s.trigger, s.bound)
}

type rec struct {
	t0       int64 // virtual time at which the teardown is requested
	retNs    int64 // virtual time at which the triggering operation returned
	started  bool
	returned bool
	retAt    sched.Stamp
}

// constructible reports whether the combination can be arranged through the emulator's interfaces.
func (s scen) constructible() bool {
	launchFail, extExited, notPolling := false, false, false
	for _, e := range s.exts {
		if e == "launch-fail" {
			launchFail = true
		}
		if e == "exited" {
			extExited = true
		}
		if e == "sub-not-polling" || e == "sub-late-polling" {
			notPolling = true
		}
	}
	// an extension can only be "not polling" when it is the party that hangs: the invocation it does not
	// come back from (or the registration it never makes) then ends in the timeout reset
	if notPolling && s.trigger != "timeout" {
		return false
	}
	switch s.trigger {
	case "timeout":
		// somebody must hang: the runtime after it received the invocation (alive), or it never started because an extension never registers
		if s.rt == "exited" || launchFail || extExited {
			return false
		}
		if s.rt == "never-started" {
			// arranged by an extension that never polls... it must be "sub-not-polling" stalling before register
			for _, e := range s.exts {
				if e == "sub-not-polling" {
					return true
				}
			}
			return false
		}
		for _, e := range s.exts {
			if e == "sub-late-polling" && s.rt != "term-exits" && s.rt != "term-ignored" {
				return false
			}
		}
		return true
	case "failure":
		// a process exit or a launch failure triggers the reset
		if s.rt == "exited" && !launchFail && !extExited {
			return true
		}
		if s.rt == "never-started" && launchFail && !extExited {
			return true
		}
		if (s.rt == "term-exits" || s.rt == "term-ignored") && extExited && !launchFail {
			return true
		}
		return false
	case "explicit", "shutdown":
		// idle environment after a healthy invocation
		return (s.rt == "term-exits" || s.rt == "term-ignored") && !launchFail && !extExited
	}
	return false
}

// extHangs: in a timeout scenario the hanging party is the extension that does not poll, else the runtime
func (s scen) extHangs() bool {
	for _, e := range s.exts {
		if e == "sub-not-polling" || e == "sub-late-polling" {
			return true
		}
	}
	return false
}

// initPhase: the teardown happens while the first initialisation is still in progress (two passes:
// the failed-init Shutdown "spindown" and the reset)
func (s scen) initPhase() bool {
	if s.rt == "never-started" {
		return true
	}
	for _, e := range s.exts {
		if e == "launch-fail" {
			return true
		}
	}
	return false
}

func (s scen) config(rp **rec) *stack.Config {
	cfg := &stack.Config{TimeoutSec: T}
	if s.rt == "term-ignored" {
		cfg.RuntimeOnTerm = "ignore"
	}
	cfg.Runtime = func(rt *stack.Actor) {
		k := 0
		for {
			n := rt.Next()
			if n.Status != 200 {
				rt.Stall()
			}
			k++
			if rt.Gen == 1 {
				if s.trigger == "timeout" && !s.extHangs() {
					rt.Stall()
				}
				if s.trigger == "failure" && s.rt == "exited" {
					rt.Exit(1)
				}
				if s.trigger == "failure" && s.rt != "exited" {
					rt.Sleep(500 * time.Millisecond) // an extension exits meanwhile
				}
			}
			if c := rt.Response(n.ReqID, n.Body); c.Status != 202 {
				rt.Stall()
			}
		}
	}
	for i, kind := range s.exts {
		i, kind := i, kind
		spec := stack.ExtSpec{Name: fmt.Sprintf("e%d", i)}
		if kind == "launch-fail" {
			spec.StartErr = syscall.ENOENT
		}
		spec.Body = func(x *stack.Actor) {
			ev := []string{"INVOKE", "SHUTDOWN"}
			if kind == "unsub" {
				ev = []string{"INVOKE"}
			}
			if x.Gen == 1 && kind == "sub-not-polling" && s.rt == "never-started" {
				x.Stall() // never registers: the runtime is never started
			}
			if c := x.Register(ev, ""); c.Status != 200 {
				x.Stall()
			}
			first := true
			nShutdown := 0
			for {
				if x.Gen == 1 && kind == "sub-not-polling" && !first {
					x.Stall()
				}
				e := x.ExtNext()
				if e.Status != 200 {
					x.Stall()
				}
				if x.Gen == 1 && kind == "sub-late-polling" && first {
					x.Sleep(3300 * time.Millisecond) // busy with the event until after the invocation has timed out
				}
				first = false
				if stack.EventType(e) == "SHUTDOWN" {
					if x.Gen == 1 && kind == "sub-ignores" {
						x.Stall()
					}
					if x.Gen == 1 && kind == "sub-late-polling" {
						if nShutdown++; nShutdown >= 3 {
							x.Stall()
						}
						continue // ignores the event and polls again: no second event may come
					}
					x.Exit(0)
				}
				if x.Gen == 1 && kind == "exited" {
					x.Sleep(100 * time.Millisecond)
					x.Exit(1)
				}
			}
		}
		cfg.Exts = append(cfg.Exts, spec)
	}
	return cfg
}

func (s scen) run(c *hx.Ctx) *hx.ScenarioResult {
	var r *rec
	cfg := s.config(&r)
	cleanup := cfg.Prepare()
	defer cleanup()
	body := func() {
		r = &rec{}
		sched.Cur().Values["rec"] = r
		w := stack.NewWorld(cfg)
		srv := w.Builder.DefaultInteropServer()
		switch s.trigger {
		case "timeout", "failure":
			inv := w.Invoke([]byte(`{"n":1}`), nil)
			r.retNs, r.returned, r.retAt = inv.AnsNs, true, inv.AnsAt
		case "explicit", "shutdown":
			sched.Region(false)
			w.Invoke([]byte(`{"n":1}`), nil)
			vtime.Sleep(700 * time.Millisecond)
			sched.Region(true)
			r.t0, r.started = sched.NowNs(), true
			if s.trigger == "explicit" {
				srv.Reset("SandboxTerminated", availMs)
			} else {
				srv.Shutdown(&interop.Shutdown{DeadlineNs: vtime.Mono() + int64(availMs)*1e6})
			}
			r.retNs, r.returned, r.retAt = sched.NowNs(), true, sched.StampNow()
		}
		sched.Finish()
	}
	return hx.ExploreScenario(c, "C09", s.name(), sched.Options{Bound: s.bound, MaxSteps: 100000, BoundAll: true, NoEarlyClock: true, HoldBack: true}, body, s.judge)
}

func (s scen) judge(e *sched.Exec) (string, string, *sched.Failure) {
	w := stack.WorldOf(e)
	if e.Crash != nil {
		return stack.CrashFailure(e, "5")
	}
	if e.Status() != sched.Finished {
		return e.Status().String(), "", &sched.Failure{Clause: "5", Sig: "hang", Msg: "the operation never returned: " + fmt.Sprint(e.Blocked) + "\n" + w.Render(false)}
	}
	r := e.Values["rec"].(*rec)
	var fail *sched.Failure
	failf := func(clause, sig, f string, a ...any) {
		if fail == nil {
			fail = &sched.Failure{Clause: clause, Sig: sig, Msg: fmt.Sprintf(f, a...) + "\n" + w.Render(false)}
		}
	}
	// ground truth per process of the first environment
	type proc struct {
		pid            int
		path           string
		termAt, killAt int64
		nTerm, nKill   int
		killStamp      sched.Stamp
		exitAt         int64
		exited         bool
		exitStamp      sched.Stamp
	}
	procs := map[int]*proc{}
	var order []*proc
	for _, k := range w.K.Log {
		switch k.Kind {
		case "exec":
			p := &proc{pid: k.Pid, path: k.Path, termAt: -1, killAt: -1}
			procs[k.Pid] = p
			order = append(order, p)
		case "signal":
			p := procs[k.Pid]
			if p == nil {
				continue
			}
			if k.Sig == int(syscall.SIGTERM) {
				p.nTerm++
				if p.termAt < 0 {
					p.termAt = k.TimeNs
				}
			}
			if k.Sig == int(syscall.SIGKILL) {
				p.nKill++
				if p.killAt < 0 {
					p.killAt = k.TimeNs
					p.killStamp = k.At
				}
			}
		case "exit":
			if p := procs[k.Pid]; p != nil && !p.exited {
				p.exited, p.exitAt, p.exitStamp = true, k.TimeNs, k.At
			}
		}
	}
	// t0: when the teardown was requested
	t0 := r.t0
	switch s.trigger {
	case "timeout":
		t0 = w.Invokes[0].IssuedNs + int64(T)*1e9
	case "failure":
		t0 = -1
		for _, k := range w.K.Log {
			if k.Kind == "exit" || k.Kind == "execfail" {
				t0 = k.TimeNs
				break
			}
		}
	}
	ms := func(ns int64) int64 { return ns / 1e6 }
	knownExt := 0
	for _, k := range s.exts {
		_ = k
		knownExt++ // every directory entry is created as an agent before it is launched
	}
	var rtp *proc
	extp := map[string]*proc{}
	for _, p := range order {
		if p.path == stack.BootstrapPath {
			if rtp == nil {
				rtp = p
			}
		} else if extp[p.path] == nil {
			extp[p.path] = p
		}
	}
	var outs []string
	// runtime
	if rtp != nil && s.rt != "exited" {
		if knownExt == 0 {
			// (1) killed at once, no TERM
			if rtp.nTerm != 0 || rtp.killAt != t0 {
				failf("1", "runtime-not-killed-at-once", "no extension is known: runtime got %d TERM, KILL at %d ms, teardown requested at %d ms", rtp.nTerm, ms(rtp.killAt), ms(t0))
			}
			outs = append(outs, "rt:kill")
		} else {
			// (2) TERM at t0, KILL only if alive at t0 + 30%
			if rtp.nTerm != 1 || rtp.termAt != t0 {
				failf("2", "runtime-term", "runtime got %d TERM (first at %d ms), teardown requested at %d ms", rtp.nTerm, ms(rtp.termAt), ms(t0))
			}
			if s.rt == "term-ignored" {
				if rtp.killAt != t0+int64(availMs)*3e5 {
					failf("2", "runtime-kill-time", "runtime ignores TERM: KILL at %d ms, expected at %d ms (30%% of %d ms after %d)", ms(rtp.killAt), ms(t0)+availMs*3/10, availMs, ms(t0))
				}
				outs = append(outs, "rt:term+kill")
			} else {
				if rtp.nKill != 0 {
					failf("2", "runtime-killed-though-exited", "runtime exited on TERM but still got KILL at %d ms", ms(rtp.killAt))
				}
				outs = append(outs, "rt:term")
			}
		}
	}
	if s.rt == "never-started" && rtp != nil && rtp.exitAt <= t0+1 && s.trigger != "failure" {
		// a runtime process exists only in later environments
	}
	// when does the agents' phase start? after the runtime phase
	agentsStart := t0
	if rtp != nil && s.rt == "term-ignored" && knownExt > 0 {
		agentsStart = t0 + int64(availMs)*3e5
	}
	deadline := t0 + int64(availMs)*1e6
	blocked := false // a failed launch aborts the initialisation: later entries are never launched
	for i, kind := range s.exts {
		p := extp[fmt.Sprintf("/opt/extensions/e%d", i)]
		if blocked {
			if p != nil && p.exitAt <= r.retNs && p.pid < 0 {
				failf("4", "launched-after-failed-launch", "extension %d was launched after an earlier launch had failed", i)
			}
			continue
		}
		if kind == "launch-fail" {
			blocked = true
		}
		if kind == "sub-not-polling" && s.rt == "never-started" {
			kind = "unsub" // it never registered: the platform knows no subscription of it
		}
		if p != nil && p.nKill > 0 && strings.HasPrefix(kind, "sub-") {
			// a registration that was not complete when the teardown looked at the extension does not count:
			// the platform then rightly treats it as unsubscribed
			registered := false
			for _, c := range w.Calls {
				if c.Pid == p.pid && c.Kind == "register" && c.Answered >= 0 && c.Status == 200 && sched.HB(c.AnsAt, p.killStamp) {
					registered = true
				}
			}
			if !registered {
				kind = "unsub"
			}
		}
		// SHUTDOWN events this extension process received
		var evs []*stack.Call
		for _, c := range w.Calls {
			if p != nil && c.Pid == p.pid && c.Kind == "extnext" && c.Answered >= 0 && stack.EventType(c) == "SHUTDOWN" {
				evs = append(evs, c)
			}
		}
		switch kind {
		case "launch-fail":
			if p != nil {
				failf("4", "launch-fail-has-process", "extension %d failed to launch but a process exists", i)
			}
		case "exited":
			// already gone: no event, no signal needed
			if len(evs) != 0 {
				failf("3", "event-to-exited", "extension %d had exited but got a SHUTDOWN event", i)
			}
		case "unsub":
			// (4) killed without event
			if p == nil {
				failf("4", "unsub-missing", "extension %d has no process", i)
				break
			}
			if len(evs) != 0 {
				failf("4", "event-to-unsubscribed", "extension %d is not subscribed to SHUTDOWN but got the event", i)
			}
			if p.nTerm != 0 || (p.killAt != agentsStart && !s.initPhase()) || p.nKill == 0 {
				failf("4", "unsub-kill-time", "unsubscribed extension %d: %d TERM, KILL at %d ms, expected KILL at %d ms", i, p.nTerm, ms(p.killAt), ms(agentsStart))
			}
			outs = append(outs, "ext:kill")
		case "sub-exits", "sub-ignores", "sub-not-polling", "sub-late-polling":
			if p == nil {
				failf("3", "sub-missing", "extension %d has no process", i)
				break
			}
			polling := kind != "sub-not-polling"
			if polling {
				// (3) exactly one event with reason and deadline
				if len(evs) != 1 {
					failf("3", "shutdown-event-count", "extension %d (%s) got %d SHUTDOWN events", i, kind, len(evs))
					break
				}
				var m struct {
					DeadlineMs     int64  `json:"deadlineMs"`
					ShutdownReason string `json:"shutdownReason"`
				}
				json.Unmarshal(evs[0].Body, &m)
				wantReason := map[string]string{"timeout": "Timeout", "failure": "ReleaseFail", "explicit": "SandboxTerminated", "shutdown": "spindown"}[s.trigger]
				if m.ShutdownReason != wantReason && !(s.initPhase() && m.ShutdownReason == "spindown") {
					failf("3", "shutdown-reason", "extension %d: shutdown reason %q, expected %q", i, m.ShutdownReason, wantReason)
				}
				if m.DeadlineMs != (vtime.BaseEpochNs+deadline)/1e6 && !s.initPhase() {
					failf("3", "shutdown-deadline", "extension %d: event deadline %d, expected %d (teardown + %d ms)", i, m.DeadlineMs, (vtime.BaseEpochNs+deadline)/1e6, availMs)
				}
			} else if len(evs) != 0 {
				failf("3", "event-without-poll", "extension %d does not poll but got an event", i)
			}
			if kind == "sub-exits" {
				if p.nKill != 0 || p.nTerm != 0 {
					failf("3", "killed-though-exited", "extension %d exited on the event but was signalled (KILL at %d ms)", i, ms(p.killAt))
				}
				outs = append(outs, "ext:event")
			} else {
				if p.killAt != deadline && !(s.initPhase() && p.nKill > 0 && p.killAt >= deadline) {
					failf("3", "sub-kill-time", "extension %d (%s): KILL at %d ms, expected exactly at the deadline %d ms", i, kind, ms(p.killAt), ms(deadline))
				}
				outs = append(outs, "ext:event+kill")
			}
		}
	}
	// (5) returns only after every started process has been reaped, and within the bound
	if r.returned {
		for _, p := range order {
			if p.exited && p.exitAt <= r.retNs && !sched.HB(p.exitStamp, r.retAt) && (s.trigger == "explicit" || s.trigger == "shutdown") {
				failf("5", "returned-before-reaped", "the operation returned although process %d (%s) had not been reaped", p.pid, p.path)
			}
		}
		if s.trigger == "explicit" || s.trigger == "shutdown" {
			for _, p := range order {
				if !p.exited {
					failf("5", "returned-with-live-process", "the operation returned while process %d (%s) was still alive", p.pid, p.path)
				}
			}
			if r.retNs > deadline+2100*1e6 {
				failf("5", "returned-late", "the operation returned at %d ms, bound is deadline %d ms + 2 s grace", ms(r.retNs), ms(deadline))
			}
		}
	}
	return strings.Join(outs, ","), w.Render(false), fail
}

func init() {
	hx.Register(&hx.Property{ID: "C09", Scenarios: func(tier string) []hx.Scenario {
		b := 0
		if tier == "thorough" {
			b = 1
		}
		extKinds := []string{"sub-exits", "sub-ignores", "sub-not-polling", "sub-late-polling", "unsub", "exited", "launch-fail"}
		var extSets [][]string
		extSets = append(extSets, nil)
		for _, a := range extKinds {
			extSets = append(extSets, []string{a})
		}
		for _, a := range extKinds {
			for _, bb := range extKinds {
				extSets = append(extSets, []string{a, bb})
			}
		}
		var out []hx.Scenario
		for _, rt := range []string{"term-exits", "term-ignored", "exited", "never-started"} {
			for _, es := range extSets {
				for _, tr := range []string{"timeout", "failure", "explicit", "shutdown"} {
					s := scen{rt: rt, exts: es, trigger: tr, bound: b}
					if !s.constructible() {
						continue
					}
					out = append(out, hx.Scenario{Name: s.name(), Run: s.run})
				}
			}
		}
		return out
	}})
}
