// Package props links every property harness into the worker binary.
package props

import (
	_ "go.amzn.com/verifh/c01"
	_ "go.amzn.com/verifh/c02"
	_ "go.amzn.com/verifh/c03"
	_ "go.amzn.com/verifh/c04"
	_ "go.amzn.com/verifh/c05"
	_ "go.amzn.com/verifh/c06"
	_ "go.amzn.com/verifh/c07"
	_ "go.amzn.com/verifh/c08"
	_ "go.amzn.com/verifh/c09"
	_ "go.amzn.com/verifh/c10"
	_ "go.amzn.com/verifh/c11"
	_ "go.amzn.com/verifh/c12"
	_ "go.amzn.com/verifh/c13"
	_ "go.amzn.com/verifh/c14"
	_ "go.amzn.com/verifh/c15"
	_ "go.amzn.com/verifh/c16"
	_ "go.amzn.com/verifh/c17"
	_ "go.amzn.com/verifh/c18"
	_ "go.amzn.com/verifh/c19"
	_ "go.amzn.com/verifh/c20"
	_ "go.amzn.com/verifh/litmus"
	_ "go.amzn.com/verifh/smoke"
)
