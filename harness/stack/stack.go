// Package stack closes the whole emulator into one controlled process: the real front-end handler,
// rapidcore, rapid, core, rapi and the local supervisor (on the simulated kernel), with scripted
// runtime / extension processes and HTTP callers as scheduler threads.
package stack

import (
	"bytes"
	"encoding/json"
	"fmt"
	"io"
	"net/http"
	"net/http/httptest"
	"os"
	"path/filepath"
	"regexp"
	"runtime/debug"
	"sort"
	"strings"
	"time"

	log "github.com/sirupsen/logrus"
	"go.amzn.com/lambda/interop"
	"go.amzn.com/lambda/rapid"
	"go.amzn.com/lambda/rapidcore"
	"go.amzn.com/lambda/rapidcore/env"
	"go.amzn.com/lambda/telemetry"
	"go.amzn.com/verifh/ehook"
	"go.amzn.com/verifrt/sched"
	"go.amzn.com/verifrt/vexec"
	"go.amzn.com/verifrt/vtime"
)

// Call is one API call of a scripted process, as that process observed it.
type Call struct {
	Actor    string // "runtime", "ext:<name>", "int:<name>"
	Gen      int    // generation (1-based count of execs of that program)
	Pid      int
	Kind     string // next, response, error, initerror, restorenext, restoreerror, register, extnext, extiniterror, extexiterror, raw
	Path     string
	Issued   int // global step number when issued
	Answered int // step number when answered, -1 if never (process died / still parked)
	IssuedNs int64
	AnsNs    int64
	Status   int
	Header   http.Header
	Body     []byte
	ReqID    string // request id (next: from the response header; response/error: the one used in the path)
	Sent     []byte // body sent
	Aborted  bool   // the handler panicked (net/http would drop the connection)
	Panic    string
	IssuedAt sched.Stamp // vector-clock stamps: compare with sched.HB, never by step numbers
	AnsAt    sched.Stamp
}

// Invoke is one invocation as its HTTP caller observed it.
type Invoke struct {
	Idx      int
	Payload  []byte
	Headers  map[string]string
	Issued   int
	Answered int
	IssuedNs int64
	AnsNs    int64
	Status   int
	Body     []byte
	Aborted  bool
	Panic    string
	IssuedAt sched.Stamp
	AnsAt    sched.Stamp
}

// LifeEvent is one platform lifecycle event (recording EventsAPI).
type LifeEvent struct {
	Step int
	Kind string
	Data any
	At   sched.Stamp
}

// ExtSpec describes one entry of the extensions directory.
type ExtSpec struct {
	Name      string
	IsDir     bool           // a sub-directory (must not be launched)
	Symlink   string         // the entry is a symbolic link to this target (which need not exist outside the function's root): a non-directory entry
	Body      func(x *Actor) // process body, run once per generation (x.Gen)
	OnTerm    string         // "die" (default action), "exit0", "ignore"
	StartErr  error          // exec fails with this error
	FailFirst int            // only the first FailFirst launches fail (0 = all)
}

// Config describes one closed system.
type Config struct {
	TimeoutSec       int
	Exts             []ExtSpec
	Runtime          func(rt *Actor)
	RuntimeOnTerm    string
	RuntimeStartErr  error
	RuntimeFailFirst int
	Env              map[string]string // process environment of the emulator for this scenario
	Handler          string
	InitCaching      bool // snapshot mode (restore routes, credentials endpoint)
	root             string
}

// World is the per-execution instance of the closed system.
type World struct {
	Cfg       *Config
	Builder   *rapidcore.SandboxBuilder
	Handler   http.Handler
	Bootstrap interop.Bootstrap
	Calls     []*Call
	Invokes   []*Invoke
	Events    []LifeEvent
	K         *vexec.Kernel
	gens      map[string]int
	Notes     []string
	// Milestone counts actor-visible events (call issued / answered, invocation issued / answered): harness
	// threads that must act "at any point of an invocation" wait for a chosen milestone.
	Milestone int
	// Phase is a label set by the scenario (e.g. "prefix" / "suffix"); a process remembers the phase it
	// was started in and its ordinal among the launches of its program in that phase.
	Phase     string
	phaseGens map[string]int
	rapidCtx  interop.RapidContext
	// Releases[i] is the runtime identity string stored by the platform when invocation i was answered
	Releases []string
}

const BootstrapPath = "/var/task/bootstrap"

type sentinel struct{ what string }

var procGone = &sentinel{"process gone"}

// Prepare creates the on-disk extensions directory of a scenario (once per scenario, not per execution)
// and sets the emulator's process environment. It returns a cleanup function.
func (c *Config) Prepare() func() {
	root, err := os.MkdirTemp("", "verif-root-")
	if err != nil {
		panic(err)
	}
	c.root = root
	dir := filepath.Join(root, "opt", "extensions")
	if len(c.Exts) > 0 {
		if err := os.MkdirAll(dir, 0o755); err != nil {
			panic(err)
		}
	}
	for _, e := range c.Exts {
		p := filepath.Join(dir, e.Name)
		if e.IsDir {
			os.MkdirAll(p, 0o755)
		} else if e.Symlink != "" {
			os.Symlink(e.Symlink, p)
		} else {
			os.WriteFile(p, []byte("#!/bin/true\n"), 0o755)
		}
	}
	if c.TimeoutSec == 0 {
		c.TimeoutSec = 3
	}
	saved := map[string]*string{}
	set := func(k, v string) {
		if old, ok := os.LookupEnv(k); ok {
			saved[k] = &old
		} else {
			saved[k] = nil
		}
		os.Setenv(k, v)
	}
	set("AWS_LAMBDA_FUNCTION_TIMEOUT", fmt.Sprint(c.TimeoutSec))
	for k, v := range c.Env {
		set(k, v)
	}
	log.SetOutput(io.Discard)
	log.SetLevel(log.PanicLevel)
	return func() {
		os.RemoveAll(root)
		for k, v := range saved {
			if v == nil {
				os.Unsetenv(k)
			} else {
				os.Setenv(k, *v)
			}
		}
	}
}

// recEvents records lifecycle events.
type recEvents struct {
	telemetry.NoOpEventsAPI
	w *World
}

func (r *recEvents) add(kind string, data any) error {
	r.w.Events = append(r.w.Events, LifeEvent{Step: sched.StepNo(), Kind: kind, Data: data, At: sched.StampNow()})
	sched.Record("ev:" + kind)
	return nil
}
func (r *recEvents) SendInitStart(d interop.InitStartData) error { return r.add("InitStart", d) }
func (r *recEvents) SendInitRuntimeDone(d interop.InitRuntimeDoneData) error {
	return r.add("InitRuntimeDone", d)
}
func (r *recEvents) SendInitReport(d interop.InitReportData) error { return r.add("InitReport", d) }
func (r *recEvents) SendRestoreRuntimeDone(d interop.RestoreRuntimeDoneData) error {
	return r.add("RestoreRuntimeDone", d)
}
func (r *recEvents) SendInvokeStart(d interop.InvokeStartData) error { return r.add("InvokeStart", d) }
func (r *recEvents) SendInvokeRuntimeDone(d interop.InvokeRuntimeDoneData) error {
	return r.add("InvokeRuntimeDone", d)
}
func (r *recEvents) SendExtensionInit(d interop.ExtensionInitData) error {
	return r.add("ExtensionInit", d)
}

// NewWorld builds a fresh emulator instance inside the current execution (call from the root thread).
func NewWorld(cfg *Config) *World {
	w := &World{Cfg: cfg, gens: map[string]int{}}
	ehook.ResetInitDone()
	w.K = vexec.K()
	b := rapidcore.NewSandboxBuilder()
	b.SetExtensionsFlag(true)
	b.SetRuntimeFsRootPath(cfg.root)
	b.SetEventsAPI(&recEvents{w: w})
	b.SetInitCachingFlag(cfg.InitCaching)
	if cfg.Handler != "" {
		b.SetHandler(cfg.Handler)
	}
	sbCtx, stateFn := b.Create()
	b.DefaultInteropServer().SetSandboxContext(sbCtx)
	b.DefaultInteropServer().SetInternalStateGetter(stateFn)
	w.Builder = b
	w.rapidCtx = rapidcore.VerifRapidCtx(sbCtx)
	w.Handler = rapid.VerifServer(w.rapidCtx).VerifHandler()
	w.Bootstrap = ehook.NewSimpleBootstrap([]string{BootstrapPath}, "/")

	onTerm := func(policy string) func(p *vexec.Proc) {
		switch policy {
		case "exit0":
			return func(p *vexec.Proc) { p.Exit(0) }
		case "ignore":
			return func(p *vexec.Proc) {}
		default:
			return nil
		}
	}
	if cfg.Runtime != nil || cfg.RuntimeStartErr != nil {
		w.K.Register(BootstrapPath, &vexec.Program{StartErr: cfg.RuntimeStartErr, FailFirst: cfg.RuntimeFailFirst, OnTerm: onTerm(cfg.RuntimeOnTerm), Main: w.procMain("runtime", cfg.Runtime)})
	}
	for _, e := range cfg.Exts {
		if e.IsDir {
			continue
		}
		e := e
		w.K.Register("/opt/extensions/"+e.Name, &vexec.Program{StartErr: e.StartErr, FailFirst: e.FailFirst, OnTerm: onTerm(e.OnTerm), Main: w.procMain("ext:"+e.Name, e.Body)})
	}
	sched.Cur().Values["world"] = w
	return w
}

// WorldOf returns the world of a finished execution.
func WorldOf(e *sched.Exec) *World {
	w, _ := e.Values["world"].(*World)
	return w
}

// Actor is a scripted process (or an internal extension thread inside the runtime process).
type Actor struct {
	W     *World
	P     *vexec.Proc
	Name  string // "runtime", "ext:<name>", "int:<name>"
	Gen   int
	ExtID string // Lambda-Extension-Identifier after a successful register
	Env   map[string]string
	// FailWriteAfter > 0: the connection of the next call breaks after the platform has written this many bytes of
	// its answer (the process is about to die while a large event is being sent to it); one-shot
	ncalls         int
	FailWriteAfter int
	Phase          string // World.Phase at launch
	PhaseGen       int    // 1-based ordinal of this launch among the launches of the program in that phase
}

func (w *World) procMain(name string, body func(a *Actor)) func(p *vexec.Proc) {
	return func(p *vexec.Proc) {
		w.gens[name]++
		if w.phaseGens == nil {
			w.phaseGens = map[string]int{}
		}
		w.phaseGens[w.Phase+"/"+name]++
		a := &Actor{W: w, P: p, Name: name, Gen: w.gens[name], Env: map[string]string{}, Phase: w.Phase, PhaseGen: w.phaseGens[w.Phase+"/"+name]}
		for _, kv := range p.Env {
			if i := strings.IndexByte(kv, '='); i >= 0 {
				a.Env[kv[:i]] = kv[i+1:]
			}
		}
		defer func() {
			if r := recover(); r != nil && r != any(procGone) {
				panic(r)
			}
		}()
		if body != nil {
			body(a)
		}
	}
}

// Internal starts an internal extension as an extra thread of this (runtime) process.
func (a *Actor) Internal(name string, body func(x *Actor)) *sched.Thread {
	x := &Actor{W: a.W, P: a.P, Name: "int:" + name, Gen: a.Gen, Env: a.Env}
	return sched.Go("int:"+name, func() {
		defer func() {
			if r := recover(); r != nil && r != any(procGone) {
				panic(r)
			}
		}()
		body(x)
	})
}

func (a *Actor) alive() {
	if !a.P.Live() {
		panic(procGone)
	}
}

// Exit ends the process with an exit code.
func (a *Actor) Exit(code int) {
	a.alive()
	a.P.Exit(code)
	panic(procGone)
}

// Crash ends the process by a signal.
func (a *Actor) Crash(sig int) {
	a.alive()
	a.P.Die(sig)
	panic(procGone)
}

// Stall makes the script stop without the process exiting.
func (a *Actor) Stall() { panic(procGone) }

// Sleep lets virtual time pass.
func (a *Actor) Sleep(d time.Duration) {
	a.alive()
	vtime.Sleep(d)
	a.alive()
}

func (a *Actor) do(kind, method, path string, hdr map[string]string, body []byte) *Call {
	return a.doR(kind, method, path, hdr, body, nil)
}

// doR is do with a request body that is produced by rd while the handler reads it (a slow upload); sent is
// what the reader will have produced in total.
func (a *Actor) doR(kind, method, path string, hdr map[string]string, body []byte, rd io.Reader) *Call {
	a.alive()
	// a script that is answered at once for ever (an emulator that no longer parks next) must come to rest: the
	// oracle then judges what was observed, instead of the execution running into the step horizon
	if a.ncalls++; a.ncalls > 300 {
		panic(procGone)
	}
	w := a.W
	c := &Call{Actor: a.Name, Gen: a.Gen, Pid: a.P.Pid, Kind: kind, Path: path, Issued: sched.StepNo(), IssuedNs: sched.NowNs(), Answered: -1, Sent: body, IssuedAt: sched.StampNow()}
	w.Calls = append(w.Calls, c)
	w.Milestone++
	sched.Record("issue:" + a.Name + ":" + kind)
	rec := httptest.NewRecorder()
	if rd == nil {
		rd = bytes.NewReader(body)
	}
	req := httptest.NewRequest(method, "http://127.0.0.1:9001"+path, rd)
	for k, v := range hdr {
		req.Header.Set(k, v)
	}
	var rw http.ResponseWriter = rec
	if a.FailWriteAfter > 0 {
		rw = &breakingWriter{ResponseWriter: rec, left: a.FailWriteAfter}
		a.FailWriteAfter = 0
	}
	func() {
		defer func() {
			if r := recover(); r != nil {
				if sched.IsAbort(r) {
					panic(r)
				}
				c.Aborted = true
				c.Panic = fmt.Sprint(r) + "\n" + string(debug.Stack())
			}
		}()
		w.Handler.ServeHTTP(rw, req)
	}()
	a.alive() // a dead process observes nothing
	c.Answered = sched.StepNo()
	c.AnsAt = sched.StampNow()
	c.AnsNs = sched.NowNs()
	c.Status = rec.Code
	c.Header = rec.Header()
	c.Body = rec.Body.Bytes()
	w.Milestone++
	sched.Record(fmt.Sprintf("answer:%s:%s:%d", a.Name, kind, c.Status))
	return c
}

const (
	rtBase  = "/2018-06-01/runtime"
	extBase = "/2020-01-01/extension"
)

func (a *Actor) Next() *Call {
	ua := "verif-runtime/1.0"
	if a.Phase != "" {
		ua += "-" + a.Phase
	}
	c := a.do("next", "GET", rtBase+"/invocation/next", map[string]string{"User-Agent": ua}, nil)
	c.ReqID = c.Header.Get("Lambda-Runtime-Aws-Request-Id")
	return c
}

func (a *Actor) Response(id string, body []byte) *Call {
	c := a.do("response", "POST", rtBase+"/invocation/"+id+"/response", map[string]string{"Content-Type": "application/octet-stream"}, body)
	c.ReqID = id
	return c
}

// ResponseSlow posts a response whose body arrives in two parts with a pause of virtual time between them.
func (a *Actor) ResponseSlow(id string, head, tail []byte, pause time.Duration) *Call {
	rd := &slowBody{parts: [][]byte{head, tail}, pause: pause}
	c := a.doR("response", "POST", rtBase+"/invocation/"+id+"/response", map[string]string{"Content-Type": "application/octet-stream"}, append(append([]byte{}, head...), tail...), rd)
	c.ReqID = id
	return c
}

// ErrorSlow posts an invocation error whose body arrives in two parts with a pause of virtual time between them.
func (a *Actor) ErrorSlow(id, errType string, head, tail []byte, pause time.Duration) *Call {
	rd := &slowBody{parts: [][]byte{head, tail}, pause: pause}
	c := a.doR("error", "POST", rtBase+"/invocation/"+id+"/error", map[string]string{"Content-Type": "application/json", "Lambda-Runtime-Function-Error-Type": errType}, append(append([]byte{}, head...), tail...), rd)
	c.ReqID = id
	return c
}

// pieceReader hands out data in pieces of at most piece bytes.
type pieceReader struct {
	data  []byte
	piece int
}

func (r *pieceReader) Read(p []byte) (int, error) {
	if len(r.data) == 0 {
		return 0, io.EOF
	}
	n := len(r.data)
	if n > r.piece {
		n = r.piece
	}
	if n > len(p) {
		n = len(p)
	}
	copy(p, r.data[:n])
	r.data = r.data[n:]
	return n, nil
}

// ResponseBroken posts a response whose body breaks off after head (the connection fails while the platform reads).
func (a *Actor) ResponseBroken(id string, head []byte) *Call {
	c := a.doR("response-broken", "POST", rtBase+"/invocation/"+id+"/response", map[string]string{"Content-Type": "application/octet-stream"}, head, &brokenBody{head: head})
	c.ReqID = id
	return c
}

// breakingWriter lets left bytes of the body through and then fails every write (connection reset by peer).
type breakingWriter struct {
	http.ResponseWriter
	left int
}

func (b *breakingWriter) Write(p []byte) (int, error) {
	if b.left <= 0 {
		return 0, io.ErrClosedPipe
	}
	if len(p) <= b.left {
		b.left -= len(p)
		return b.ResponseWriter.Write(p)
	}
	n, _ := b.ResponseWriter.Write(p[:b.left])
	b.left = 0
	return n, io.ErrClosedPipe
}

type brokenBody struct {
	head []byte
	done bool
}

func (b *brokenBody) Read(p []byte) (int, error) {
	if !b.done {
		b.done = true
		return copy(p, b.head), nil
	}
	return 0, io.ErrUnexpectedEOF
}

type slowBody struct {
	parts [][]byte
	pause time.Duration
	i     int
}

func (b *slowBody) Read(p []byte) (int, error) {
	if b.i >= len(b.parts) {
		return 0, io.EOF
	}
	if b.i > 0 {
		vtime.Sleep(b.pause)
	}
	n := copy(p, b.parts[b.i])
	if n < len(b.parts[b.i]) {
		b.parts[b.i] = b.parts[b.i][n:]
		b.pause = 0
		return n, nil
	}
	b.i++
	return n, nil
}

func (a *Actor) Error(id, errType string, body []byte) *Call {
	h := map[string]string{"Content-Type": "application/json"}
	if errType != "" {
		h["Lambda-Runtime-Function-Error-Type"] = errType
	}
	c := a.do("error", "POST", rtBase+"/invocation/"+id+"/error", h, body)
	c.ReqID = id
	return c
}

func (a *Actor) InitError(errType string, body []byte) *Call {
	h := map[string]string{"Content-Type": "application/json"}
	if errType != "" {
		h["Lambda-Runtime-Function-Error-Type"] = errType
	}
	return a.do("initerror", "POST", rtBase+"/init/error", h, body)
}

func (a *Actor) RestoreNext() *Call {
	return a.do("restorenext", "GET", rtBase+"/restore/next", nil, nil)
}
func (a *Actor) RestoreError(errType string) *Call {
	return a.do("restoreerror", "POST", rtBase+"/restore/error", map[string]string{"Lambda-Runtime-Function-Error-Type": errType}, nil)
}
func (a *Actor) Raw(kind, method, path string, hdr map[string]string, body []byte) *Call {
	return a.do(kind, method, path, hdr, body)
}

// Register registers this extension (external: name = its file name).
func (a *Actor) Register(events []string, features string) *Call {
	name := strings.TrimPrefix(strings.TrimPrefix(a.Name, "ext:"), "int:")
	return a.RegisterAs(name, events, features)
}

func (a *Actor) RegisterAs(name string, events []string, features string) *Call {
	b, _ := json.Marshal(map[string]any{"events": events})
	if events == nil {
		b = []byte(`{"events":[]}`)
	}
	h := map[string]string{"Lambda-Extension-Name": name}
	if features != "" {
		h["Lambda-Extension-Accept-Feature"] = features
	}
	c := a.do("register", "POST", extBase+"/register", h, b)
	if c.Status == 200 {
		a.ExtID = c.Header.Get("Lambda-Extension-Identifier")
	}
	return c
}

func (a *Actor) ExtNext() *Call {
	return a.do("extnext", "GET", extBase+"/event/next", map[string]string{"Lambda-Extension-Identifier": a.ExtID}, nil)
}

func (a *Actor) ExtInitError(errType string) *Call {
	h := map[string]string{"Lambda-Extension-Identifier": a.ExtID}
	if errType != "" {
		h["Lambda-Extension-Function-Error-Type"] = errType
	}
	return a.do("extiniterror", "POST", extBase+"/init/error", h, []byte(`{}`))
}

func (a *Actor) ExtExitError(errType string) *Call {
	h := map[string]string{"Lambda-Extension-Identifier": a.ExtID}
	if errType != "" {
		h["Lambda-Extension-Function-Error-Type"] = errType
	}
	return a.do("extexiterror", "POST", extBase+"/exit/error", h, []byte(`{}`))
}

// EventType extracts eventType of an extension event body.
func EventType(c *Call) string {
	var m struct {
		EventType string `json:"eventType"`
	}
	json.Unmarshal(c.Body, &m)
	return m.EventType
}

// Invoke posts one invocation through the front-end handler on the current thread.
func (w *World) Invoke(payload []byte, hdr map[string]string) *Invoke {
	inv := &Invoke{Idx: len(w.Invokes), Payload: payload, Headers: hdr, Issued: sched.StepNo(), IssuedNs: sched.NowNs(), Answered: -1, IssuedAt: sched.StampNow()}
	w.Invokes = append(w.Invokes, inv)
	w.Milestone++
	sched.Record(fmt.Sprintf("invoke-issue:%d", inv.Idx))
	rec := httptest.NewRecorder()
	// the body arrives the way a network delivers it: in pieces (no single Read returns all of a larger event),
	// with the Content-Length a client sends
	req := httptest.NewRequest("POST", "http://localhost:8080/2015-03-31/functions/function/invocations", &pieceReader{data: payload, piece: 4000})
	req.ContentLength = int64(len(payload))
	for k, v := range hdr {
		req.Header.Set(k, v)
	}
	func() {
		defer func() {
			if r := recover(); r != nil {
				if sched.IsAbort(r) {
					panic(r)
				}
				inv.Aborted = true
				inv.Panic = fmt.Sprint(r)
			}
		}()
		ehook.InvokeHandler(rec, req, w.Builder.LambdaInvokeAPI(), w.Bootstrap)
	}()
	inv.Answered = sched.StepNo()
	inv.AnsAt = sched.StampNow()
	inv.AnsNs = sched.NowNs()
	inv.Status = rec.Code
	inv.Body = rec.Body.Bytes()
	w.Releases = append(w.Releases, rapid.VerifRuntimeRelease(w.rapidCtx))
	w.Milestone++
	sched.Record(fmt.Sprintf("invoke-answer:%d:%d", inv.Idx, inv.Status))
	return inv
}

// ---- stock behaviours ----

// EchoRuntime is a well-behaved runtime: it answers every invocation with f(event).
func EchoRuntime(f func(ev []byte) []byte) func(rt *Actor) {
	return func(rt *Actor) {
		for it := 0; ; it++ {
			if it > 64 {
				rt.Stall() // an emulator that answers every next at once must not make the script spin for ever
			}
			n := rt.Next()
			if n.Status != 200 {
				rt.Stall()
			}
			out := n.Body
			if f != nil {
				out = f(n.Body)
			}
			if r := rt.Response(n.ReqID, out); r.Status != 202 && r.Status != 413 {
				rt.Stall() // a real runtime would give up; looping would spin for ever
			}
		}
	}
}

// LoopExt is a well-behaved external extension: register, then poll for events for ever; it exits
// with code 0 when it receives SHUTDOWN (unless stayOnShutdown).
func LoopExt(events []string, stayOnShutdown bool) func(x *Actor) {
	return func(x *Actor) {
		r := x.Register(events, "")
		if r.Status != 200 {
			x.Stall()
		}
		for it := 0; ; it++ {
			if it > 64 {
				x.Stall() // see EchoRuntime
			}
			ev := x.ExtNext()
			if ev.Status != 200 {
				x.Stall()
			}
			if EventType(ev) == "SHUTDOWN" && !stayOnShutdown {
				x.Exit(0)
			}
		}
	}
}

// ---- rendering for replays ----

// Render renders the observation logs of a world (used as digest and in replay output).
func (w *World) Render(full bool) string {
	var sb strings.Builder
	type line struct {
		step int
		s    string
	}
	var ls []line
	ids := map[string]string{}
	norm := func(id string) string {
		if id == "" {
			return ""
		}
		if v, ok := ids[id]; ok {
			return v
		}
		v := fmt.Sprintf("R%d", len(ids)+1)
		ids[id] = v
		return v
	}
	// first pass to allocate ids in order of first appearance
	calls := append([]*Call{}, w.Calls...)
	sort.SliceStable(calls, func(i, j int) bool { return calls[i].Issued < calls[j].Issued })
	for _, c := range calls {
		if c.Kind == "next" && c.ReqID != "" {
			norm(c.ReqID)
		}
	}
	for _, c := range w.Calls {
		ls = append(ls, line{c.Issued, fmt.Sprintf("%s#%d %s %s issued", c.Actor, c.Gen, c.Kind, normPath(c.Path, ids))})
		if c.Answered >= 0 {
			b := string(c.Body)
			if len(b) > 120 && !full {
				b = b[:120] + "..."
			}
			ls = append(ls, line{c.Answered, fmt.Sprintf("%s#%d %s -> %d id=%s body=%q", c.Actor, c.Gen, c.Kind, c.Status, norm(c.ReqID), b)})
		}
	}
	for _, i := range w.Invokes {
		ls = append(ls, line{i.Issued, fmt.Sprintf("invoke[%d] issued payload=%q", i.Idx, trunc(i.Payload, 60))})
		if i.Answered >= 0 {
			ls = append(ls, line{i.Answered, fmt.Sprintf("invoke[%d] -> %d body=%q aborted=%v t=%dms", i.Idx, i.Status, trunc(i.Body, 160), i.Aborted, i.AnsNs/1e6)})
		}
	}
	for _, e := range w.Events {
		b, _ := json.Marshal(e.Data)
		ls = append(ls, line{e.Step, fmt.Sprintf("event %s %s", e.Kind, trunc(b, 200))})
	}
	for _, k := range w.K.Log {
		ls = append(ls, line{k.Step, fmt.Sprintf("kernel %s pid=%d path=%s sig=%d group=%v code=%d t=%dms", k.Kind, k.Pid, k.Path, k.Sig, k.Group, k.Code, k.TimeNs/1e6)})
	}
	sort.SliceStable(ls, func(i, j int) bool { return ls[i].step < ls[j].step })
	for _, l := range ls {
		fmt.Fprintf(&sb, "%6d %s\n", l.step, normPath(l.s, ids))
	}
	return NormUUIDs(sb.String())
}

var uuidRe = regexp.MustCompile(`[0-9a-f]{8}-[0-9a-f]{4}-[0-9a-f]{4}-[0-9a-f]{4}-[0-9a-f]{12}`)

// NormUUIDs renames every UUID in s to U1, U2, ... in order of first appearance.
func NormUUIDs(s string) string {
	m := map[string]string{}
	return uuidRe.ReplaceAllStringFunc(s, func(u string) string {
		if v, ok := m[u]; ok {
			return v
		}
		v := fmt.Sprintf("U%d", len(m)+1)
		m[u] = v
		return v
	})
}

func normPath(p string, ids map[string]string) string {
	for k, v := range ids {
		p = strings.ReplaceAll(p, k, v)
	}
	return p
}

func trunc(b []byte, n int) string {
	if len(b) > n {
		return string(b[:n]) + "..."
	}
	return string(b)
}

// QuietExit is deferred by helper threads of a scripted process: it swallows the "process gone" unwinding.
func QuietExit() {
	if r := recover(); r != nil && r != any(procGone) {
		panic(r)
	}
}

// CrashSite extracts the first repository frame of a panic stack (stable call-site signature).
func CrashSite(stack string) string {
	for _, l := range strings.Split(stack, "\n") {
		l = strings.TrimSpace(l)
		if strings.HasPrefix(l, "go.amzn.com/lambda/") || strings.HasPrefix(l, "go.amzn.com/cmd/") {
			if j := strings.LastIndex(l, "("); j > 0 {
				l = l[:j]
			}
			return strings.TrimPrefix(l, "go.amzn.com/")
		}
	}
	return "unknown"
}

var tsRe = regexp.MustCompile(`\d{4}-\d\d-\d\d \d\d:\d\d:\d\d[.\d]* \+\d{4} UTC( m=\+[\d.]+)?`)
var ptrRe = regexp.MustCompile(`0x[0-9a-f]{6,}`)

// CrashFailure renders an emulator crash as a failure with a stable signature and digest.
func CrashFailure(e *sched.Exec, clause string) (string, string, *sched.Failure) {
	site := CrashSite(e.Crash.Stack)
	val := ptrRe.ReplaceAllString(tsRe.ReplaceAllString(e.Crash.Value, "<time>"), "0x..")
	msg := "emulator crashed: panic in thread " + e.Crash.Name + ": " + val + "\n" + firstLines(e.Crash.Stack, 24)
	if w := WorldOf(e); w != nil {
		msg += "\n" + w.Render(false)
	}
	return "crash", "crash:" + site, &sched.Failure{Clause: clause, Sig: "crash:" + site, Msg: msg}
}

func firstLines(s string, n int) string {
	l := strings.Split(s, "\n")
	if len(l) > n {
		l = l[:n]
	}
	return strings.Join(l, "\n")
}

var deadlineRe = regexp.MustCompile(`"deadlineMs":\d+`)

// Marks remembers positions in the observation logs (start of a suffix).
type Marks struct{ Calls, Invokes, Events, Kernel int }

func (w *World) Mark() Marks {
	return Marks{len(w.Calls), len(w.Invokes), len(w.Events), len(w.K.Log)}
}

// ActorTrace renders what callers, runtimes and extensions observed from m on, per actor (schedule
// independent), with request ids, extension ids and absolute deadlines normalised.
func (w *World) ActorTrace(m Marks) string {
	var sb strings.Builder
	for _, i := range w.Invokes[m.Invokes:] {
		fmt.Fprintf(&sb, "invoke %d -> %d %q\n", i.Idx-m.Invokes, i.Status, trunc(i.Body, 400))
	}
	// processes started from the mark on
	pids := map[int]int{}
	for _, k := range w.K.Log[m.Kernel:] {
		if k.Kind == "exec" {
			pids[k.Pid] = len(pids) + 1
		}
	}
	per := map[string][]string{}
	var order []string
	for _, c := range w.Calls[m.Calls:] {
		if pids[c.Pid] == 0 {
			continue // a call of a process of the earlier environment
		}
		key := fmt.Sprintf("%s/p%d", c.Actor, pids[c.Pid])
		if _, ok := per[key]; !ok {
			order = append(order, key)
		}
		line := fmt.Sprintf("  %s %s", c.Kind, c.Path)
		if c.Answered >= 0 {
			h := ""
			for _, k := range []string{"Lambda-Runtime-Invoked-Function-Arn", "Lambda-Runtime-Client-Context", "Content-Type"} {
				if v := c.Header.Get(k); v != "" {
					h += " " + k + "=" + v
				}
			}
			if dl := c.Header.Get("Lambda-Runtime-Deadline-Ms"); dl != "" {
				h += " deadline=set"
			}
			line += fmt.Sprintf(" -> %d%s %q aborted=%v", c.Status, h, deadlineRe.ReplaceAllString(trunc(c.Body, 300), `"deadlineMs":D`), c.Aborted)
		} else {
			line += " -> (never answered)"
		}
		per[key] = append(per[key], line)
	}
	sort.Strings(order)
	for _, k := range order {
		sb.WriteString(k + "\n" + strings.Join(per[k], "\n") + "\n")
	}
	return NormUUIDs(sb.String())
}

// PlatformTrace renders supervisor requests and lifecycle events from m on (pids as ordinals).
func (w *World) PlatformTrace(m Marks) string {
	var sb strings.Builder
	pids := map[int]int{}
	per := map[int][]string{}
	for _, k := range w.K.Log[m.Kernel:] {
		if k.Kind == "exec" {
			pids[k.Pid] = len(pids) + 1
			env := append([]string{}, k.Env...)
			sort.Strings(env)
			per[k.Pid] = append(per[k.Pid], fmt.Sprintf("exec %s args=%v dir=%s env=%v", k.Path, k.Args, k.Dir, env))
		}
	}
	for _, k := range w.K.Log[m.Kernel:] {
		if pids[k.Pid] == 0 || k.Kind == "exec" {
			continue
		}
		per[k.Pid] = append(per[k.Pid], fmt.Sprintf("%s sig=%d group=%v code=%d", k.Kind, k.Sig, k.Group, k.Code))
	}
	var ps []int
	for p := range per {
		ps = append(ps, p)
	}
	sort.Slice(ps, func(i, j int) bool { return pids[ps[i]] < pids[ps[j]] })
	for _, p := range ps {
		fmt.Fprintf(&sb, "proc %d\n  %s\n", pids[p], strings.Join(per[p], "\n  "))
	}
	for i := m.Invokes; i < len(w.Releases); i++ {
		fmt.Fprintf(&sb, "runtime release after invoke %d: %q\n", i-m.Invokes, w.Releases[i])
	}
	for _, e := range w.Events[m.Events:] {
		b, _ := json.Marshal(e.Data)
		s := string(b)
		s = regexp.MustCompile(`"durationMs":[0-9.]+`).ReplaceAllString(s, `"durationMs":X`)
		fmt.Fprintf(&sb, "event %s %s\n", e.Kind, s)
	}
	return NormUUIDs(sb.String())
}

// ---- server-level driving (no front end): initialisation can precede the first invocation, snapshot mode ----

// InitParams are the values given to the platform at initialisation (the extensions' register answers
// must echo them).
type InitParams struct {
	Handler, FunctionName, FunctionVersion, AccountID string
	AwsKey, AwsSecret, AwsSession                     string
	TimeoutMs                                         int64
	Customer                                          map[string]string
}

// ServerInit starts the initialisation through the LambdaInvokeAPI (asynchronous, as in the emulator).
func (w *World) ServerInit(p InitParams) {
	if p.TimeoutMs == 0 {
		p.TimeoutMs = int64(w.Cfg.TimeoutSec) * 1000
	}
	if p.Customer == nil {
		p.Customer = map[string]string{}
	}
	w.Builder.LambdaInvokeAPI().Init(&interop.Init{
		Handler:                      p.Handler,
		AccountID:                    p.AccountID,
		AwsKey:                       p.AwsKey,
		AwsSecret:                    p.AwsSecret,
		AwsSession:                   p.AwsSession,
		XRayDaemonAddress:            "0.0.0.0:0",
		FunctionName:                 p.FunctionName,
		FunctionVersion:              p.FunctionVersion,
		RuntimeInfo:                  interop.RuntimeInfo{ImageJSON: "{}"},
		CustomerEnvironmentVariables: p.Customer,
		SandboxType:                  interop.SandboxClassic,
		Bootstrap:                    w.Bootstrap,
		EnvironmentVariables:         env.NewEnvironment(),
	}, p.TimeoutMs)
}

type proxyWriter struct {
	hdr    http.Header
	body   []byte
	status int
}

func (p *proxyWriter) Header() http.Header         { return p.hdr }
func (p *proxyWriter) Write(b []byte) (int, error) { p.body = append(p.body, b...); return len(b), nil }
func (p *proxyWriter) WriteHeader(s int)           { p.status = s }

// ServerInvoke performs one invocation through LambdaInvokeAPI.Invoke on the current thread. Status is
// 200 on nil error, else 5xx with the error text in Panic.
func (w *World) ServerInvoke(payload []byte) *Invoke {
	inv := &Invoke{Idx: len(w.Invokes), Payload: payload, Issued: sched.StepNo(), IssuedNs: sched.NowNs(), Answered: -1, IssuedAt: sched.StampNow()}
	w.Invokes = append(w.Invokes, inv)
	w.Milestone++
	pw := &proxyWriter{hdr: http.Header{}}
	var err error
	func() {
		defer func() {
			if r := recover(); r != nil {
				if sched.IsAbort(r) {
					panic(r)
				}
				inv.Aborted = true
				inv.Panic = fmt.Sprint(r)
			}
		}()
		err = w.Builder.LambdaInvokeAPI().Invoke(pw, &interop.Invoke{
			ID:                 "00000000-0000-0000-0000-000000000000",
			InvokedFunctionArn: "arn:aws:lambda:us-east-1:012345678912:function:test_function",
			Payload:            bytes.NewReader(payload),
		})
	}()
	inv.Answered = sched.StepNo()
	inv.AnsAt = sched.StampNow()
	inv.AnsNs = sched.NowNs()
	inv.Status = 200
	if err != nil {
		inv.Status = 500
		inv.Panic = err.Error()
	}
	inv.Body = pw.body
	w.Milestone++
	return inv
}

// RestoreResult is the outcome of a restore request.
type RestoreResult struct {
	Err       error
	IssuedNs  int64
	AnsNs     int64
	IssuedAt  sched.Stamp
	AnsAt     sched.Stamp
	RestoreMs int64
}

// ServerRestore issues a restore request on the current thread.
func (w *World) ServerRestore(r *interop.Restore) *RestoreResult {
	res := &RestoreResult{IssuedNs: sched.NowNs(), IssuedAt: sched.StampNow()}
	w.Milestone++
	rr, err := w.Builder.DefaultInteropServer().Restore(r)
	res.Err, res.RestoreMs = err, rr.RestoreMs
	res.AnsNs, res.AnsAt = sched.NowNs(), sched.StampNow()
	w.Milestone++
	return res
}
