package c19

import (
	"context"
	"fmt"
	"time"

	"go.amzn.com/lambda/supervisor"
	"go.amzn.com/lambda/supervisor/model"
	"go.amzn.com/verifh/hx"
	"go.amzn.com/verifrt/sched"
	"go.amzn.com/verifrt/vchan"
	"go.amzn.com/verifrt/vexec"
	"go.amzn.com/verifrt/vtime"
)

// The model table binds the simulated kernel to the real one (DESIGN 2.6). For every behaviour x
// operation it records what supervisor + simulated kernel produce when the steps are taken one after
// the other, each followed by quiescence: Exec, settle, operation, settle. conformance/c19/run.sh
// extracts the table from this scenario's samples and replays every row with the uninstrumented
// LocalSupervisor on real /bin/sh children (script = Shell), comparing event, result and liveness.

// shell scripts of the behaviours. Every script that does not exit by itself prints "ready" once its
// TERM disposition is installed; forking scripts print the child's pid first.
var shellOf = map[string]string{
	"exit0":      `exit 0`,
	"exit3":      `exit 3`,
	"sigdie":     `kill -9 $$`,
	"trapterm":   `trap 'exit 4' TERM; echo ready; while :; do sleep 0.05; done`,
	"ignoreterm": `trap '' TERM; echo ready; while :; do sleep 0.05; done`,
	"forever":    `echo ready; while :; do sleep 0.05; done`,
	"forkexit":   `(trap '' TERM; exec sleep 30 >/dev/null 2>&1) & echo $!; exit 0`,
	"forkstay":   `(trap '' TERM; exec sleep 30 >/dev/null 2>&1) & echo $!; echo ready; while :; do sleep 0.05; done`,
}

var tableOps = []string{"natural", "terminate", "kill-far", "kill-past", "kill-unknown"}

// TableRow is one line of the model table (JSON field names are read by the conformance test).
type TableRow struct {
	Behaviour  string `json:"behaviour"`
	Op         string `json:"op"`
	Shell      string `json:"shell"`
	SelfExits  bool   `json:"self_exits"`
	HasChild   bool   `json:"has_child"`
	Event      string `json:"event"`       // none | exit:N | signal:N
	Result     string `json:"result"`      // nil | error | - (no operation)
	MainAlive  bool   `json:"main_alive"`  // after the operation has settled
	ChildAlive string `json:"child_alive"` // n/a | true | false
}

func runRow(b *behaviour, op string) TableRow {
	row := TableRow{Behaviour: b.id, Op: op, Shell: shellOf[b.id], SelfExits: b.selfExits, HasChild: b.hasChild, Event: "none", Result: "-", ChildAlive: "n/a"}
	e := sched.Run(&sched.ReplayStrategy{}, 20000, false, func() {
		kern := vexec.K()
		kern.Register(pathOf("p0"), b.mk())
		sup := supervisor.NewLocalSupervisor()
		ch, _ := sup.Events(context.Background(), &model.EventsRequest{Domain: domain})
		var evs []string
		sched.Go("consumer", func() {
			for {
				ev := vchan.Recv(ch)
				switch {
				case ev.Event.ExitStatus != nil:
					evs = append(evs, fmt.Sprintf("exit:%d", *ev.Event.ExitStatus))
				case ev.Event.Signo != nil:
					evs = append(evs, fmt.Sprintf("signal:%d", *ev.Event.Signo))
				default:
					evs = append(evs, "empty")
				}
			}
		})
		ctx := context.Background()
		if err := sup.Exec(ctx, &model.ExecRequest{Domain: domain, Name: "p0", Path: pathOf("p0")}); err != nil {
			row.Event = "MODEL-ERROR: exec " + err.Error()
		}
		sched.WaitIdle()
		res := func(err error) string {
			if err != nil {
				return "error"
			}
			return "nil"
		}
		switch op {
		case "terminate":
			row.Result = res(sup.Terminate(ctx, &model.TerminateRequest{Domain: domain, Name: "p0"}))
		case "kill-far":
			row.Result = res(sup.Kill(ctx, &model.KillRequest{Domain: domain, Name: "p0", Deadline: vtime.Now().Add(time.Hour)}))
		case "kill-past":
			row.Result = res(sup.Kill(ctx, &model.KillRequest{Domain: domain, Name: "p0", Deadline: vtime.Now().Add(-time.Second)}))
		case "kill-unknown":
			row.Result = res(sup.Kill(ctx, &model.KillRequest{Domain: domain, Name: "ghost", Deadline: vtime.Now().Add(time.Hour)}))
		}
		sched.WaitIdle()
		switch len(evs) {
		case 0:
		case 1:
			row.Event = evs[0]
		default:
			row.Event = fmt.Sprint("MODEL-ERROR: several events ", evs)
		}
		for _, p := range kern.Procs {
			if p.Path == pathOf("p0") {
				row.MainAlive = p.Alive
			} else {
				row.ChildAlive = fmt.Sprint(p.Alive)
			}
		}
		sched.Finish()
	})
	if e.Status() != sched.Finished || e.Crash != nil {
		row.Event = "MODEL-ERROR: status " + e.Status().String()
	}
	return row
}

// The scenario judges nothing (the exploration scenarios do): an anomalous row (several events, no
// quiescence) is carried as a MODEL-ERROR text in the row and makes the conformance replay differ.
func modelTableScenario() hx.Scenario {
	return hx.Scenario{Name: "model-table", Run: func(c *hx.Ctx) *hx.ScenarioResult {
		quiet()
		t0 := time.Now()
		r := &hx.ScenarioResult{Name: "model-table", Exhaustive: true, Outcomes: map[string]int64{}}
		for _, b := range tableBehaviours() {
			for _, op := range tableOps {
				row := runRow(b, op)
				r.Evaluations++
				r.Execs++
				r.Outcomes[fmt.Sprintf("%s/%s/main=%v/child=%s", row.Event, row.Result, row.MainAlive, row.ChildAlive)]++
				r.Samples = append(r.Samples, row)
			}
		}
		r.Distinct = int64(len(r.Outcomes))
		r.WallS = time.Since(t0).Seconds()
		return r
	}}
}
