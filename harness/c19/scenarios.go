package c19

import "fmt"

func k(dl, proc string) opSpec { return opSpec{kind: "kill", proc: proc, dl: dl} }
func term(proc string) opSpec  { return opSpec{kind: "term", proc: proc} }
func execOp(proc string) opSpec {
	return opSpec{kind: "exec", proc: proc}
}
func await(proc string) opSpec { return opSpec{kind: "await", proc: proc} }

// specs lists the explored scenarios of a tier. Names are stable: <family>/<behaviours>/<operations>.
func specs(tier string) (out []*spec) {
	thorough := tier == "thorough"
	bound := 1
	if thorough {
		bound = 2
	}
	add := func(family string, procs []procSpec, pre []string, bnd int, opsName string, ops ...[]opSpec) {
		bs := ""
		for i, p := range procs {
			if i > 0 {
				bs += "+"
			}
			bs += p.behav
		}
		out = append(out, &spec{name: fmt.Sprintf("%s/%s/%s", family, bs, opsName), procs: procs, pre: pre, ops: ops, bound: bnd})
	}

	// ---- one process: every behaviour against every operation pattern ----
	for _, b := range behaviours {
		p := []procSpec{{"p0", b.id}}
		pre := []string{"p0"}
		add("one", p, pre, bound, "natural")
		add("one", p, pre, bound, "term", []opSpec{term("p0")})
		add("one", p, pre, bound, "kill-far", []opSpec{k("far", "p0")})
		add("one", p, pre, bound, "kill-near", []opSpec{k("near", "p0")})
		add("one", p, pre, bound, "kill-past", []opSpec{k("past", "p0")})
		add("one", p, pre, bound, "term;kill-near", []opSpec{term("p0"), k("near", "p0")})
		add("one", p, pre, bound, "term||kill-far", []opSpec{term("p0")}, []opSpec{k("far", "p0")})
		add("one", p, pre, bound, "kill-far||kill-near", []opSpec{k("far", "p0")}, []opSpec{k("near", "p0")})
		add("one", p, nil, bound, "exec||kill-far", []opSpec{execOp("p0")}, []opSpec{k("far", "p0")})
		// Kill after the exit has been reported (natural exit, or exit provoked by Terminate)
		var lead []opSpec
		switch {
		case b.selfExits:
			lead = []opSpec{await("p0")}
		case b.diesOnTerm:
			lead = []opSpec{term("p0"), await("p0")}
		}
		if lead != nil {
			add("one", p, pre, bound, "exited;kill-far", append(append([]opSpec{}, lead...), k("far", "p0")))
			add("one", p, pre, bound, "exited;kill-past", append(append([]opSpec{}, lead...), k("past", "p0")))
		}
		if thorough {
			add("one", p, pre, bound, "kill-at", []opSpec{k("at", "p0")})
			add("one", p, pre, bound, "kill-past||kill-far", []opSpec{k("past", "p0")}, []opSpec{k("far", "p0")})
			add("one", p, nil, bound, "exec||term", []opSpec{execOp("p0")}, []opSpec{term("p0")})
			add("one", p, pre, bound, "term||term||kill-near", []opSpec{term("p0")}, []opSpec{term("p0")}, []opSpec{k("near", "p0")})
			add("one", p, pre, bound, "kill-far;kill-far", []opSpec{k("far", "p0"), k("far", "p0")})
		}
	}

	// ---- unknown names and failed Exec ----
	add("unknown", []procSpec{{"p0", "exit3"}}, []string{"p0"}, bound, "kill-ghost-far||kill-ghost-past",
		[]opSpec{k("far", "ghost")}, []opSpec{k("past", "ghost")})
	add("unknown", []procSpec{{"p0", "forever"}}, []string{"p0"}, bound, "kill-ghost||kill-far",
		[]opSpec{k("near", "ghost"), term("ghost")}, []opSpec{k("far", "p0")})
	add("execfail", []procSpec{{"p0", "noent"}}, nil, bound, "exec;kill;term",
		[]opSpec{execOp("p0"), k("far", "p0"), term("p0")})
	add("execfail", []procSpec{{"p0", "noent"}, {"p1", "exit3"}}, nil, bound, "exec-bad||exec-good;kill",
		[]opSpec{execOp("p0"), k("far", "p0")}, []opSpec{execOp("p1"), k("far", "p1")})

	// ---- several processes at once ----
	two := func(b0, b1 string) []procSpec { return []procSpec{{"p0", b0}, {"p1", b1}} }
	both := []string{"p0", "p1"}
	add("two", two("exit3", "sigdie"), nil, bound, "exec||exec", []opSpec{execOp("p0")}, []opSpec{execOp("p1")})
	add("two", two("exit0", "exit3"), both, bound, "natural")
	add("two", two("forever", "trapterm"), both, bound, "kill-far||term", []opSpec{k("far", "p0")}, []opSpec{term("p1")})
	add("two", two("forkstay", "exit0"), both, bound, "kill-near;kill-far", []opSpec{k("near", "p0"), k("far", "p1")})
	add("two", two("forkstay", "exit0"), both, bound, "kill-near||kill-far", []opSpec{k("near", "p0")}, []opSpec{k("far", "p1")})
	add("two", two("trapterm", "sigdie"), both, bound, "shutdown", []opSpec{term("p0"), term("p1"), k("near", "p0"), k("near", "p1")})
	// a process that exited long ago is still known after later processes were started
	add("two", two("exit3", "forever"), nil, bound, "exec;exited;exec-other;kill;term", []opSpec{execOp("p0"), await("p0"), execOp("p1"), k("far", "p0"), term("p0"), k("far", "p1")})
	add("two", two("sigdie", "exit0"), nil, bound, "exec;exited;exec-other;exited;term;kill", []opSpec{execOp("p0"), await("p0"), execOp("p1"), await("p1"), term("p0"), k("past", "p0"), k("far", "p1")})
	// ---- many processes, all exiting before anybody reads the event stream: one event each, none lost ----
	for _, n := range []int{17, 24} {
		var ps []procSpec
		var names []string
		for i := 0; i < n; i++ {
			ps = append(ps, procSpec{fmt.Sprintf("p%d", i), []string{"exit0", "exit3", "sigdie"}[i%3]})
			names = append(names, fmt.Sprintf("p%d", i))
		}
		out = append(out, &spec{name: fmt.Sprintf("many/%dx(exit0,exit3,sigdie)/natural+late-consumer", n), procs: ps, pre: names, bound: 1, boundAll: true, lateConsumer: true})
	}
	if !thorough {
		return out
	}
	add("two", two("ignoreterm", "forkexit"), both, bound, "term;kill-far||term;kill-far",
		[]opSpec{term("p0"), k("far", "p0")}, []opSpec{term("p1"), k("far", "p1")})
	add("two", two("forkstay", "forkexit"), both, bound, "kill-far||kill-near", []opSpec{k("far", "p0")}, []opSpec{k("near", "p1")})
	add("two", two("slowdie", "exit3"), both, bound, "kill-near||kill-far", []opSpec{k("near", "p0")}, []opSpec{k("far", "p1")})
	add("two", two("exit3", "forever"), nil, bound, "exec;kill||exec;term",
		[]opSpec{execOp("p0"), k("far", "p0")}, []opSpec{execOp("p1"), term("p1")})
	add("two", two("trapterm", "ignoreterm"), both, bound, "term||term||kill-near-both",
		[]opSpec{term("p0")}, []opSpec{term("p1")}, []opSpec{k("near", "p0"), k("near", "p1")})

	// three processes. One operator (or none): preemption bounding with free choices at blocking
	// points, one deviation. Three concurrent operators: delay bounding (every departure from the
	// default scheduler counts), three deviations.
	three := func(b0, b1, b2 string) []procSpec { return []procSpec{{"p0", b0}, {"p1", b1}, {"p2", b2}} }
	all := []string{"p0", "p1", "p2"}
	add("three", three("exit0", "exit3", "sigdie"), all, bound, "natural")
	add("three", three("ignoreterm", "sigdie", "forever"), all, 1, "shutdown",
		[]opSpec{term("p0"), term("p1"), term("p2"), k("far", "p0"), k("far", "p1"), k("far", "p2")})
	add("three", three("exit3", "trapterm", "forever"), nil, 1, "exec-x3||term-p1",
		[]opSpec{execOp("p0")}, []opSpec{execOp("p1"), term("p1")}, []opSpec{execOp("p2"), k("near", "p2")})
	db := func(sp *spec) { sp.boundAll = true }
	add("three-delaybounded", three("exit0", "trapterm", "forkstay"), all, 3, "term;kill-near-x3",
		[]opSpec{term("p0"), k("near", "p0")}, []opSpec{term("p1"), k("near", "p1")}, []opSpec{term("p2"), k("near", "p2")})
	db(out[len(out)-1])
	add("three-delaybounded", three("forever", "forkexit", "exit3"), all, 3, "kill-far-x3",
		[]opSpec{k("far", "p0")}, []opSpec{k("far", "p1")}, []opSpec{k("far", "p2")})
	db(out[len(out)-1])
	add("three-delaybounded", three("slowdie", "forkslow", "sigdie"), all, 3, "kill-near-x3",
		[]opSpec{k("near", "p0")}, []opSpec{k("near", "p1")}, []opSpec{k("near", "p2")})
	db(out[len(out)-1])
	return out
}
