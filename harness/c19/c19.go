// Package c19 decides property C19: "Local supervisor: one truthful exit event per process, kill
// means gone".
//
// The real supervisor.LocalSupervisor runs on the simulated kernel (rt/vexec, rt/vsyscall): its
// os/exec and syscall imports are redirected by the instrumenter, its Wait goroutines, channels,
// mutex, context deadline and clock reads go through the controlled scheduler. A scenario fixes a set
// of processes (each with a scripted behaviour) and a set of operator threads (Exec / Terminate /
// Kill with a past, near or far deadline / wait-for-the-exit-event); the exploration runs every
// interleaving of the operators, the process bodies, the SIGTERM reactions, the supervisor's Wait
// goroutines, the event consumer and the virtual clock, up to the deviation bound.
//
// Ground truth is the kernel log (exec / fork / signal / exit / reap, each stamped with step, virtual
// time and the acting thread). The oracle (oracle.go) follows the property statement clause by clause.
package c19

import (
	"context"
	"fmt"
	"io"
	"strings"
	"syscall"
	"time"

	"github.com/sirupsen/logrus"
	"go.amzn.com/lambda/supervisor"
	"go.amzn.com/lambda/supervisor/model"
	"go.amzn.com/verifh/hx"
	"go.amzn.com/verifrt/sched"
	"go.amzn.com/verifrt/vchan"
	"go.amzn.com/verifrt/vexec"
	"go.amzn.com/verifrt/vtime"
)

const (
	domain      = "runtime"
	childSuffix = ".child"
	sigKILL     = int(syscall.SIGKILL)
	sigTERM     = int(syscall.SIGTERM)
)

// ---- process behaviours -------------------------------------------------------------------------

// behaviour describes one scripted program. A nil Main means "runs for ever" (no thread is spent on
// it); a nil OnTerm is the default action of SIGTERM (the process dies by the signal).
type behaviour struct {
	id          string
	selfExits   bool // the main process terminates without any action of the supervisor
	diesOnTerm  bool // a SIGTERM ends the main process (trap-and-exit or default action)
	hasChild    bool
	mk          func() *vexec.Program
	shell       string // the /bin/sh script of the same behaviour (conformance replay; documentation here)
	childOnTerm func(*vexec.Proc)
}

func ignoreTerm(*vexec.Proc) {}

var behaviours = []*behaviour{
	{id: "exit0", selfExits: true, mk: func() *vexec.Program {
		return &vexec.Program{Main: func(p *vexec.Proc) { p.Exit(0) }}
	}},
	{id: "exit3", selfExits: true, mk: func() *vexec.Program {
		return &vexec.Program{Main: func(p *vexec.Proc) { p.Exit(3) }}
	}},
	{id: "sigdie", selfExits: true, mk: func() *vexec.Program {
		// kills itself with signal 9 (no kernel "signal" record: not sent by the supervisor)
		return &vexec.Program{Main: func(p *vexec.Proc) { p.Die(sigKILL) }}
	}},
	{id: "trapterm", diesOnTerm: true, mk: func() *vexec.Program {
		return &vexec.Program{OnTerm: func(p *vexec.Proc) { p.Exit(4) }}
	}},
	{id: "ignoreterm", mk: func() *vexec.Program {
		return &vexec.Program{OnTerm: ignoreTerm}
	}},
	{id: "forever", diesOnTerm: true, mk: func() *vexec.Program {
		return &vexec.Program{}
	}},
	{id: "forkexit", selfExits: true, hasChild: true, mk: func() *vexec.Program {
		// forks a child (same process group); the child ignores TERM and never exits; the parent exits 0
		return &vexec.Program{Main: func(p *vexec.Proc) {
			if !p.Alive {
				return
			}
			p.Fork(p.Path+childSuffix, nil, ignoreTerm)
			sched.Yield("proc.step", nil)
			p.Exit(0)
		}}
	}},
	{id: "forkstay", diesOnTerm: true, hasChild: true, mk: func() *vexec.Program {
		// forks the same child but stays alive itself (default TERM action)
		return &vexec.Program{Main: func(p *vexec.Proc) {
			if !p.Alive {
				return
			}
			p.Fork(p.Path+childSuffix, nil, ignoreTerm)
		}}
	}},
	// The next two die from SIGKILL only at a later step (vexec.Program.AsyncKill), as on a real
	// kernel: a Kill deadline can then expire while the process is still alive.
	{id: "slowdie", mk: func() *vexec.Program {
		return &vexec.Program{OnTerm: ignoreTerm, AsyncKill: true}
	}},
	{id: "forkslow", hasChild: true, mk: func() *vexec.Program {
		return &vexec.Program{OnTerm: ignoreTerm, AsyncKill: true, Main: func(p *vexec.Proc) {
			if !p.Alive || p.Doomed {
				return
			}
			p.Fork(p.Path+childSuffix, nil, ignoreTerm)
		}}
	}},
}

// tableBehaviours: the behaviours that have a /bin/sh counterpart in the conformance replay.
func tableBehaviours() []*behaviour {
	var out []*behaviour
	for _, b := range behaviours {
		if shellOf[b.id] != "" {
			out = append(out, b)
		}
	}
	return out
}

func behaviourByID(id string) *behaviour {
	for _, b := range behaviours {
		if b.id == id {
			return b
		}
	}
	return nil
}

// ---- scenario description -----------------------------------------------------------------------

type procSpec struct {
	name  string
	behav string // behaviour id, or "noent" (path not registered: Exec fails with ENOENT)
}

type opSpec struct {
	kind string // exec | term | kill | await (park until the exit event of proc has been consumed)
	proc string // process name; a name that is not in spec.procs is an unknown name
	dl   string // kill: far | near | past | at
}

type spec struct {
	name  string
	procs []procSpec
	pre   []string   // processes Exec'ed by the root thread before the operators start
	ops   [][]opSpec // one operator thread per element
	bound int
	// boundAll: delay bounding (sched.Options.BoundAll) - every departure from the default scheduler,
	// also at blocking points, counts against the bound. Used where free expansion of the choices at
	// blocking points is out of reach (three processes with three concurrent operators).
	boundAll bool
	// lateConsumer: the reader of Events() starts reading only when every other thread is parked (all exits
	// have happened and wait to be published)
	lateConsumer bool
}

func pathOf(name string) string { return "/sim/" + name }

func (sp *spec) behaviourOf(name string) *behaviour {
	for _, p := range sp.procs {
		if p.name == name {
			return behaviourByID(p.behav)
		}
	}
	return nil
}

// ---- record of one execution --------------------------------------------------------------------

type call struct {
	op       opSpec
	thread   string // name of the operator thread
	tid      string // scheduler id of the operator thread
	startLog int    // len(kernel log) at invocation
	endLog   int    // len(kernel log) at return
	startNs  int64
	endNs    int64
	dlNs     int64 // kill: deadline in virtual ns
	returned bool
	err      error

	execDoneAtStart  bool // Exec(name) had returned nil before the invocation
	execDoneAtEnd    bool
	eventSeenAtStart bool // the exit event of the process had been consumed before the invocation
	pidKnownAtEnd    bool
	aliveAtEnd       bool // main process alive at the step the call returned
	groupAliveAtEnd  bool // a member of the group is alive and has no SIGKILL pending
	reapedAtEnd      bool
}

type evRec struct {
	name        string
	domain      string
	status      *int32
	signo       *int32
	aliveAtRecv bool
	known       bool
	// what the event says about itself through its accessors (what the emulator's events watcher reads)
	terminated           bool
	success              bool
	text                 string
	viaExited, viaSignal *int32
}

func (e evRec) render() string {
	s := e.name + ":"
	if e.status != nil {
		s += fmt.Sprintf("exit=%d", *e.status)
	}
	if e.signo != nil {
		s += fmt.Sprintf("sig=%d", *e.signo)
	}
	if e.status == nil && e.signo == nil {
		s += "empty"
	}
	return s
}

type rec struct {
	sp      *spec
	k       *vexec.Kernel
	calls   []*call
	events  []evRec
	seen    map[string]int  // exit events consumed per process name
	execOK  map[string]bool // Exec(name) returned nil
	settled bool            // the root reached quiescence and inspected the threads
	stuck   []string        // threads parked for ever at quiescence that should not be
	waiters int             // supervisor Wait goroutines parked in waitpid at quiescence
	objs    map[string]*sched.Obj
}

// Harness state that one thread writes and another reads (seen, execOK) is made visible to the
// happens-before cache per process name: writers touch, readers observe. Kernel state is observed
// through vexec.Proc.Observe / ObserveGroup / ObserveTable. The oracle never compares positions of
// different threads' entries in a log: every cross-thread fact it uses is such a visible read.
func (r *rec) obj(name string) *sched.Obj {
	o := r.objs[name]
	if o == nil {
		o = &sched.Obj{Name: "c19:" + name}
		r.objs[name] = o
	}
	return o
}

func errStr(e error) string {
	if e == nil {
		return "nil"
	}
	return "err(" + e.Error() + ")"
}

// pidOf finds the pid of a started process (or forked child) by its unique path.
func (r *rec) pidOf(name string) int {
	path := pathOf(name)
	for i := range r.k.Log {
		ev := &r.k.Log[i]
		if (ev.Kind == "exec" || ev.Kind == "fork") && ev.Path == path {
			return ev.Pid
		}
	}
	return 0
}

func (r *rec) pname(pid int) string {
	if p := r.k.Procs[pid]; p != nil {
		return strings.TrimPrefix(p.Path, "/sim/")
	}
	return fmt.Sprintf("pid%d", pid)
}

func (r *rec) onEvent(ev model.Event) {
	e := evRec{}
	if ev.Event.Name != nil {
		e.name = *ev.Event.Name
	}
	if ev.Event.Domain != nil {
		e.domain = *ev.Event.Domain
	}
	if ev.Event.ExitStatus != nil {
		v := *ev.Event.ExitStatus
		e.status = &v
	}
	if ev.Event.Signo != nil {
		v := *ev.Event.Signo
		e.signo = &v
	}
	if t := ev.Event.ProcessTerminated(); t != nil {
		e.terminated = true
		e.success, e.text = t.Success(), t.String()
		if v := t.Exited(); v != nil {
			c := *v
			e.viaExited = &c
		}
		if v := t.Signaled(); v != nil {
			c := *v
			e.viaSignal = &c
		}
	}
	if pid := r.pidOf(e.name); pid != 0 {
		e.known = true
		r.k.Procs[pid].Observe()
		e.aliveAtRecv = r.k.Procs[pid].Alive
	}
	r.events = append(r.events, e)
	r.seen[e.name]++
	sched.Touch(r.obj(e.name), 1)
}

func deadlineOf(class string) time.Time {
	now := vtime.Now()
	switch class {
	case "far":
		return now.Add(time.Hour)
	case "near":
		return now.Add(5 * time.Millisecond)
	case "past":
		return now.Add(-time.Second)
	case "at":
		return now
	}
	panic("c19: unknown deadline class " + class)
}

func (r *rec) do(sup *supervisor.LocalSupervisor, thread string, o opSpec) {
	if o.kind == "await" {
		name := o.proc
		sched.Block("await-event", r.obj(name), func() bool { return r.seen[name] > 0 })
		return
	}
	c := &call{op: o, thread: thread, startLog: len(r.k.Log), startNs: sched.NowNs()}
	if t := sched.Me(); t != nil {
		c.tid = t.ID
	}
	sched.Observe(r.obj(o.proc))
	c.execDoneAtStart = r.execOK[o.proc]
	c.eventSeenAtStart = r.seen[o.proc] > 0
	r.calls = append(r.calls, c)
	ctx := context.Background()
	switch o.kind {
	case "exec":
		c.err = sup.Exec(ctx, &model.ExecRequest{Domain: domain, Name: o.proc, Path: pathOf(o.proc)})
		if c.err == nil {
			r.execOK[o.proc] = true
			sched.Touch(r.obj(o.proc), 2)
		}
	case "term":
		c.err = sup.Terminate(ctx, &model.TerminateRequest{Domain: domain, Name: o.proc})
	case "kill":
		dl := deadlineOf(o.dl)
		c.dlNs = vtime.VirtualOf(dl)
		c.err = sup.Kill(ctx, &model.KillRequest{Domain: domain, Name: o.proc, Deadline: dl})
	default:
		panic("c19: unknown op " + o.kind)
	}
	// same atomic step as the return of the call
	c.returned = true
	c.endLog = len(r.k.Log)
	c.endNs = sched.NowNs()
	sched.Observe(r.obj(o.proc))
	c.execDoneAtEnd = r.execOK[o.proc]
	if !c.execDoneAtEnd {
		r.k.ObserveTable() // whether the pid exists is not implied by the causal past
	}
	if pid := r.pidOf(o.proc); pid != 0 {
		p := r.k.Procs[pid]
		r.k.ObserveGroup(p.Pgid)
		c.pidKnownAtEnd = true
		c.aliveAtEnd = p.Alive
		c.reapedAtEnd = p.Reaped
		c.groupAliveAtEnd = len(r.k.GroupSurvivors(p.Pgid)) > 0
	}
}

// inspectThreads runs at quiescence (nothing and no timer enabled): which threads are parked, where.
func (r *rec) inspectThreads() {
	for _, t := range sched.Cur().Threads() {
		if t.Done() || t == sched.Me() {
			continue
		}
		kind := "?"
		if t.Pend() != nil {
			kind = t.Pend().Kind
		}
		switch {
		case t.Name == "consumer":
			// reads the events channel for ever by construction
		case strings.HasPrefix(t.Name, "local_supervisor.go:"):
			if kind == "waitpid" {
				r.waiters++ // its process is alive, else the thread would be enabled
			} else {
				r.stuck = append(r.stuck, t.Name+"@"+kind)
			}
		default:
			r.stuck = append(r.stuck, t.Name+"@"+kind)
		}
	}
}

func (sp *spec) body() func() {
	return func() {
		k := vexec.K()
		r := &rec{sp: sp, k: k, seen: map[string]int{}, execOK: map[string]bool{}, objs: map[string]*sched.Obj{}}
		sched.Cur().Values["rec"] = r
		for _, p := range sp.procs {
			if b := behaviourByID(p.behav); b != nil {
				k.Register(pathOf(p.name), b.mk())
			}
		}
		sup := supervisor.NewLocalSupervisor()
		ch, _ := sup.Events(context.Background(), &model.EventsRequest{Domain: domain})
		sched.Go("consumer", func() {
			if sp.lateConsumer {
				sched.WaitQuiet()
			}
			for {
				r.onEvent(vchan.Recv(ch))
			}
		})
		for _, n := range sp.pre {
			r.do(sup, "root", opSpec{kind: "exec", proc: n})
		}
		var ths []*sched.Thread
		for i, ops := range sp.ops {
			name, ops := fmt.Sprintf("op%d", i), ops
			ths = append(ths, sched.Go(name, func() {
				for _, o := range ops {
					r.do(sup, name, o)
				}
			}))
		}
		_ = ths
		// quiescence instead of Join: an operator that never returns is then reported by the oracle
		// (call not returned) instead of ending the run as a bare deadlock
		sched.WaitIdle()
		r.inspectThreads()
		r.settled = true
		sched.Finish()
	}
}

func judge(e *sched.Exec) (string, string, *sched.Failure) {
	r, _ := e.Values["rec"].(*rec)
	if r == nil {
		return "norec", "", &sched.Failure{Clause: "engine", Sig: "norec", Msg: "execution left no record"}
	}
	fail := r.evaluate(e)
	return r.outcome(e), r.digest(e), fail
}

func quiet() {
	logrus.SetOutput(io.Discard)
	logrus.SetLevel(logrus.PanicLevel)
}

func (sp *spec) scenario() hx.Scenario {
	return hx.Scenario{Name: sp.name, Run: func(c *hx.Ctx) *hx.ScenarioResult {
		quiet()
		return hx.ExploreScenario(c, "C19", sp.name, sched.Options{Bound: sp.bound, BoundAll: sp.boundAll, MaxSteps: 20000}, sp.body(), judge)
	}}
}

func init() {
	hx.Register(&hx.Property{ID: "C19", Scenarios: func(tier string) []hx.Scenario {
		var out []hx.Scenario
		for _, sp := range specs(tier) {
			out = append(out, sp.scenario())
		}
		out = append(out, modelTableScenario())
		return out
	}})
}
