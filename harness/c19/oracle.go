package c19

import (
	"errors"
	"fmt"
	"sort"
	"strings"
	"syscall"

	"go.amzn.com/lambda/supervisor/model"
	"go.amzn.com/verifrt/sched"
	"go.amzn.com/verifrt/vexec"
)

// The oracle, clause by clause from the statement of C19.
//
//  1  "Every process started through the local supervisor produces exactly one termination event
//     carrying its true exit status or terminating signal."
//       event-missing / event-duplicate / event-wrong-status / event-for-live / event-phantom
//  2  "Kill returns success only once the process has terminated [kill-nil-alive], takes the whole
//     process group with it [kill-nil-group-alive], succeeds for a process that already exited
//     [kill-exited-error], fails with an error for unknown names [kill-unknown-nil], past deadlines
//     [kill-past-nil] or if the process outlives the deadline [kill-nil-alive again: a process that is
//     still alive when Kill gives up must not be reported gone; kill-blocked: Kill does give up]."
//     The list of error causes is read as exhaustive: an error needs one of them [kill-spurious-error];
//     a time-out needs the virtual clock to have reached the deadline.
//  3  "Terminate delivers SIGTERM to the group without waiting."
//       term-signal (not exactly one group SIGTERM) / terminate-blocked
//  4  no crash, no supervisor thread parked for ever at quiescence (crash / stuck-thread / *-blocked)
//
// What the oracle deliberately does not demand (the statement does not): an event for a process that
// is still alive at quiescence (ignores TERM, never killed); death of a forked child after Terminate;
// death of the group remnants when Kill finds the process already gone by itself ("succeeds for a
// process that already exited" - a Kill overlapping a natural exit may linearise after it); a
// particular result when the deadline is past AND the process already exited (both sub-clauses apply);
// an error when the process died after the deadline but before Kill looked (exit and expiry both
// pending at Kill's last select: either order is a linearisation; such runs are labelled "+late" in
// the outcome statistics); a particular error kind.

func fail(clause, sig, format string, a ...any) *sched.Failure {
	return &sched.Failure{Clause: clause, Sig: "C19/" + clause + ":" + sig, Msg: fmt.Sprintf(format, a...)}
}

func (r *rec) exitEvent(pid int) *vexec.Event {
	for i := range r.k.Log {
		ev := &r.k.Log[i]
		if ev.Kind == "exit" && ev.Pid == pid {
			return ev
		}
	}
	return nil
}

// killedBy reports whether pid was terminated by a SIGKILL that the supervisor sent (the kernel marks
// the victim Doomed at the kill(2) step; a process that kills itself is not) and returns the index
// of that "signal" record in the kernel log.
func (r *rec) killedBy(pid int) (bool, int) {
	p := r.k.Procs[pid]
	if p == nil || !p.Doomed {
		return false, -1
	}
	for i := range r.k.Log {
		ev := &r.k.Log[i]
		if ev.Kind == "signal" && ev.Sig == sigKILL && ev.Step == p.DoomStep {
			return true, i
		}
	}
	return false, -1
}

func isNoSuchEntity(err error) bool {
	var se *model.SupervisorError
	return errors.As(err, &se) && se.Kind == model.NoSuchEntity
}

func (r *rec) where(e *sched.Exec) string {
	return " | " + r.digest(e)
}

func (r *rec) evaluate(e *sched.Exec) *sched.Failure {
	if e.Crash != nil {
		first := e.Crash.Value
		if i := strings.IndexByte(first, '\n'); i >= 0 {
			first = first[:i]
		}
		if len(first) > 60 {
			first = first[:60]
		}
		return fail("4", "crash:"+first, "panic in thread %s: %s\n%s", e.Crash.Name, e.Crash.Value, e.Crash.Stack)
	}
	// calls that never returned
	for _, c := range r.calls {
		if !c.returned {
			switch c.op.kind {
			case "term":
				return fail("3", "terminate-blocked", "Terminate(%s) by %s never returned (status %s, blocked %v)%s", c.op.proc, c.thread, e.Status(), e.Blocked, r.where(e))
			case "kill":
				return fail("4", "kill-blocked", "Kill(%s,%s) by %s never returned (status %s, blocked %v)%s", c.op.proc, c.op.dl, c.thread, e.Status(), e.Blocked, r.where(e))
			default:
				return fail("4", "exec-blocked", "Exec(%s) by %s never returned (status %s, blocked %v)%s", c.op.proc, c.thread, e.Status(), e.Blocked, r.where(e))
			}
		}
	}
	for _, c := range r.calls {
		var f *sched.Failure
		switch c.op.kind {
		case "kill":
			f = r.checkKill(e, c)
		case "term":
			f = r.checkTerm(e, c)
		}
		if f != nil {
			return f
		}
	}
	if !r.settled {
		// an operator parked on "await" for an event that never came, or some other hang
		if e.Status() == sched.Deadlock {
			for _, b := range e.Blocked {
				if strings.Contains(b, "@await-event") {
					return fail("1", "event-missing", "an operator waits for ever for the exit event of a terminated process (blocked %v)%s", e.Blocked, r.where(e))
				}
			}
		}
		return fail("4", "hang", "scenario did not reach quiescence: status %s, blocked %v%s", e.Status(), e.Blocked, r.where(e))
	}
	if f := r.checkEvents(e); f != nil {
		return f
	}
	if len(r.stuck) > 0 {
		return fail("4", "stuck-thread", "threads parked for ever at quiescence: %v%s", r.stuck, r.where(e))
	}
	alive := 0
	for _, p := range r.sp.procs {
		if pid := r.pidOf(p.name); pid != 0 && r.k.Procs[pid].Alive {
			alive++
		}
	}
	if r.waiters != alive {
		return fail("4", "waiter-count", "%d Wait goroutines parked in waitpid, %d started processes alive%s", r.waiters, alive, r.where(e))
	}
	return nil
}

func (r *rec) checkKill(e *sched.Exec, c *call) *sched.Failure {
	name := c.op.proc
	desc := fmt.Sprintf("Kill(%s,%s) by %s = %s", name, c.op.dl, c.thread, errStr(c.err))
	pastAtStart := c.dlNs < c.startNs
	// unknown names fail
	if !c.pidKnownAtEnd {
		if c.err == nil {
			return fail("2", "kill-unknown-nil", "%s although no process of that name was ever started%s", desc, r.where(e))
		}
		return nil
	}
	pid := r.pidOf(name)
	if c.err == nil {
		if c.aliveAtEnd {
			return fail("2", "kill-nil-alive", "%s at a step where the process is still alive%s", desc, r.where(e))
		}
		bySup, sigIdx := r.killedBy(pid)
		if bySup && c.groupAliveAtEnd {
			return fail("2", "kill-nil-group-alive", "%s, the process was SIGKILLed by the supervisor, but a member of its process group is still alive%s", desc, r.where(e))
		}
		if pastAtStart {
			// "fails for past deadlines" unless "the process already exited": it must not be this very
			// call that killed it
			if bySup && sigIdx >= c.startLog && sigIdx < c.endLog && r.k.Log[sigIdx].Tid == c.tid {
				return fail("2", "kill-past-nil", "%s although the deadline was already past at the call (and the call itself killed the process)%s", desc, r.where(e))
			}
		}
		return nil
	}
	// an error: one of the causes of the statement must hold
	if c.eventSeenAtStart && !pastAtStart && c.endNs <= c.dlNs {
		return fail("2", "kill-exited-error", "%s although the process had exited (its event was already consumed) and the deadline lay ahead%s", desc, r.where(e))
	}
	unknownOK := !c.execDoneAtStart && isNoSuchEntity(c.err)
	timeoutOK := c.endNs >= c.dlNs
	if !(unknownOK || pastAtStart || timeoutOK) {
		return fail("2", "kill-spurious-error", "%s at t=%d ns: the name is known, the deadline t=%d ns not reached%s", desc, c.endNs, c.dlNs, r.where(e))
	}
	return nil
}

func (r *rec) checkTerm(e *sched.Exec, c *call) *sched.Failure {
	if !c.execDoneAtStart {
		return nil // unknown (or not yet known) name: the statement says nothing
	}
	pid := r.pidOf(c.op.proc)
	pgid := r.k.Procs[pid].Pgid
	n := 0
	for i := c.startLog; i < c.endLog; i++ {
		ev := &r.k.Log[i]
		if ev.Kind != "signal" || ev.Tid != c.tid {
			continue
		}
		n++
		if ev.Sig != sigTERM || !ev.Group || ev.Pid != pgid {
			return fail("3", "term-signal", "Terminate(%s) by %s sent signal %d to %d (group=%v), expected SIGTERM to the process group %d%s", c.op.proc, c.thread, ev.Sig, ev.Pid, ev.Group, pgid, r.where(e))
		}
	}
	// (judged only where nothing else can make virtual time pass during the call: one operator thread - no concurrent
	// Kill holding the supervisor's lock until its deadline - and no timer that overtook a runnable thread)
	if c.endNs != c.startNs && len(r.sp.ops) <= 1 && e.EarlyClock == 0 {
		return fail("3", "terminate-waits", "Terminate(%s) by %s returned %d ms of virtual time after it was called: it must deliver the signal without waiting%s", c.op.proc, c.thread, (c.endNs-c.startNs)/1e6, r.where(e))
	}
	if n > 1 || (n == 0 && !c.reapedAtEnd) {
		return fail("3", "term-signal", "Terminate(%s) by %s delivered %d SIGTERMs to the group (process reaped at return: %v), expected exactly one%s", c.op.proc, c.thread, n, c.reapedAtEnd, r.where(e))
	}
	return nil
}

func (r *rec) checkEvents(e *sched.Exec) *sched.Failure {
	started := map[string]int{}
	for i := range r.k.Log {
		ev := &r.k.Log[i]
		if ev.Kind == "exec" {
			started[strings.TrimPrefix(ev.Path, "/sim/")] = ev.Pid
		}
	}
	count := map[string]int{}
	for _, ev := range r.events {
		pid, ok := started[ev.name]
		if !ok {
			return fail("1", "event-phantom", "event %s for a process that was never started%s", ev.render(), r.where(e))
		}
		count[ev.name]++
		if count[ev.name] > 1 {
			return fail("1", "event-duplicate", "second termination event %s for the same process%s", ev.render(), r.where(e))
		}
		if ev.aliveAtRecv {
			return fail("1", "event-for-live", "termination event %s received while the process is alive%s", ev.render(), r.where(e))
		}
		p := r.k.Procs[pid]
		okStatus := false
		if p.Sig != 0 {
			okStatus = ev.signo != nil && ev.status == nil && int(*ev.signo) == p.Sig
		} else {
			okStatus = ev.status != nil && ev.signo == nil && int(*ev.status) == p.Code
		}
		if !okStatus || ev.domain != domain {
			return fail("1", "event-wrong-status", "event %s (domain %q), kernel: exit code %d signal %d%s", ev.render(), ev.domain, p.Code, p.Sig, r.where(e))
		}
		// the event's own reading of that status (the only thing its consumers look at) says the same
		wantText := fmt.Sprintf("exit status %d", p.Code)
		if p.Sig != 0 {
			wantText = "signal: " + syscall.Signal(p.Sig).String()
		}
		same := func(a, b *int32) bool { return (a == nil) == (b == nil) && (a == nil || *a == *b) }
		if !ev.terminated || ev.success != (p.Sig == 0 && p.Code == 0) || ev.text != wantText || !same(ev.viaExited, ev.status) || !same(ev.viaSignal, ev.signo) {
			return fail("1", "event-misreads-status", "event %s describes itself as success=%v %q (Exited %v, Signaled %v), kernel: exit code %d signal %d%s", ev.render(), ev.success, ev.text, ev.viaExited != nil, ev.viaSignal != nil, p.Code, p.Sig, r.where(e))
		}
	}
	var names []string
	for n := range started {
		names = append(names, n)
	}
	sort.Strings(names)
	for _, n := range names {
		if !r.k.Procs[started[n]].Alive && count[n] == 0 {
			return fail("1", "event-missing", "process %s terminated (code %d signal %d) but no event arrived although the consumer kept reading%s", n, r.k.Procs[started[n]].Code, r.k.Procs[started[n]].Sig, r.where(e))
		}
	}
	return nil
}

// ---- rendering ----------------------------------------------------------------------------------

// sortedCalls orders the calls by thread, then program order (the append order across threads is
// not an observation).
func (r *rec) sortedCalls() []*call {
	cs := append([]*call{}, r.calls...)
	sort.SliceStable(cs, func(i, j int) bool { return cs[i].thread < cs[j].thread })
	return cs
}

// outcome is the observation class for the vacuity statistics: call results, events in order, final
// liveness, and whether a group remnant survived a successful Kill of a process that went by itself.
func (r *rec) outcome(e *sched.Exec) string {
	var sb strings.Builder
	sb.WriteString(e.Status().String())
	for _, c := range r.sortedCalls() {
		res := "blocked"
		if c.returned {
			res = "err"
			if c.err == nil {
				res = "nil"
			}
		}
		fmt.Fprintf(&sb, " %s:%s(%s%s)=%s", c.thread, c.op.kind, c.op.proc, c.op.dl, res)
		if c.op.kind == "kill" && c.returned && c.err == nil && c.groupAliveAtEnd {
			sb.WriteString("+remnant")
		}
		if c.op.kind == "kill" && c.returned && c.err == nil && c.dlNs >= c.startNs {
			if ex := r.exitEvent(r.pidOf(c.op.proc)); ex != nil && ex.TimeNs > c.dlNs {
				sb.WriteString("+late")
			}
		}
	}
	sb.WriteString(" ev[")
	for i, ev := range r.events {
		if i > 0 {
			sb.WriteByte(' ')
		}
		sb.WriteString(ev.render())
	}
	sb.WriteString("] alive[")
	var al []string
	for pid, p := range r.k.Procs {
		if p.Alive {
			al = append(al, r.pname(pid))
		}
	}
	sort.Strings(al)
	sb.WriteString(strings.Join(al, " "))
	sb.WriteString("]")
	return sb.String()
}

// digest renders everything the oracle reads (replay determinism, violation messages).
func (r *rec) digest(e *sched.Exec) string {
	var sb strings.Builder
	sb.WriteString(r.outcome(e))
	sb.WriteString(" calls[")
	for _, c := range r.sortedCalls() {
		fmt.Fprintf(&sb, "%s:%s(%s%s)@%d..%d=%s ", c.thread, c.op.kind, c.op.proc, c.op.dl, c.startNs, c.endNs, errStr(c.err))
	}
	sb.WriteString("] kernel[")
	for i := range r.k.Log {
		ev := &r.k.Log[i]
		switch ev.Kind {
		case "signal":
			g := ""
			if ev.Group {
				g = "g"
			}
			fmt.Fprintf(&sb, "signal(%s%s,%d) ", g, r.pname(ev.Pid), ev.Sig)
		case "exit":
			fmt.Fprintf(&sb, "exit(%s,%d)@%d ", r.pname(ev.Pid), ev.Code, ev.TimeNs)
		case "execfail":
			fmt.Fprintf(&sb, "execfail(%s) ", ev.Path)
		default:
			fmt.Fprintf(&sb, "%s(%s) ", ev.Kind, r.pname(ev.Pid))
		}
	}
	sb.WriteString("]")
	if len(r.stuck) > 0 {
		fmt.Fprintf(&sb, " stuck%v", r.stuck)
	}
	return sb.String()
}
