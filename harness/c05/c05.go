// Package c05 decides property C05: a timed-out invocation is answered with the timeout outcome within
// the bound, after a full teardown, the next invocation runs on fresh processes; a response racing
// with the expiry yields exactly one of the two outcomes.
package c05

import (
	"fmt"
	"os"
	"strings"
	"time"

	"go.amzn.com/verifh/faults"
	"go.amzn.com/verifh/hx"
	"go.amzn.com/verifh/stack"
	"go.amzn.com/verifrt/sched"
	"go.amzn.com/verifrt/vexec"
)

const T = 3

// allowance after the timeout: 2.0 s reset budget + 2.0 s reaping grace + 0.1 s front-end pause
// (constants of server.go, shutdown.go, handlers.go; a changed constant is a visible decision here)
const allowanceNs = int64(4100 * time.Millisecond)

var timeoutText = fmt.Sprintf("Task timed out after %d.00 seconds", T)

type scen struct {
	faults.Scen
	bound  int
	race   string // "" | "tie" | "early"
	delay  int    // race: the runtime answers after this many ms
	second int    // history scenarios: 1-based index of a second invocation that must time out as well (0: none)
	helper bool   // the runtime forks a helper process (same process group, ignores TERM) when it starts
	slowGo bool   // one goroutine of the emulator may be slower than a timer (sched.HoldThroughTimer): time bounds are not judged, and an invocation other than the faulty one may time out itself, nothing else
}

func (s scen) name() string {
	if s.race != "" {
		return fmt.Sprintf("race=%s respond-after=%dms ext=%d B=%d", s.race, s.delay, s.NExt, s.bound)
	}
	if s.slowGo {
		return s.Scen.Name() + fmt.Sprintf(" slow-goroutine B=%d", s.bound)
	}
	if s.helper {
		return s.Scen.Name() + fmt.Sprintf(" with-forked-helpers B=%d", s.bound)
	}
	return s.Scen.Name() + fmt.Sprintf(" B=%d", s.bound)
}

func (s scen) config() *stack.Config {
	if s.race == "" {
		cfg := s.Scen.Config()
		if s.helper {
			fork := func(inner func(*stack.Actor)) func(*stack.Actor) {
				return func(a *stack.Actor) {
					if a.P != nil && a.P.Alive {
						a.P.Fork(a.P.Path+"+helper", nil, func(*vexec.Proc) {})
					}
					inner(a)
				}
			}
			cfg.Runtime = fork(cfg.Runtime)
		}
		return cfg
	}
	cfg := &stack.Config{TimeoutSec: T}
	cfg.Runtime = func(rt *stack.Actor) {
		k := 0
		for {
			n := rt.Next()
			if n.Status != 200 {
				rt.Stall()
			}
			k++
			if k == 2 && rt.Gen == 1 && s.delay > 0 {
				rt.Sleep(time.Duration(s.delay) * time.Millisecond)
			}
			if c := rt.Response(n.ReqID, n.Body); c.Status != 202 {
				rt.Exit(1) // a runtime whose response is refused gives up
			}
		}
	}
	for i := 0; i < s.NExt; i++ {
		cfg.Exts = append(cfg.Exts, stack.ExtSpec{Name: fmt.Sprintf("e%d", i), Body: stack.LoopExt([]string{"INVOKE", "SHUTDOWN"}, false)})
	}
	return cfg
}

func (s scen) run(c *hx.Ctx) *hx.ScenarioResult {
	cfg := s.config()
	cleanup := cfg.Prepare()
	defer cleanup()
	fi := s.FailingInvocation()
	if s.race != "" {
		fi = 2
	}
	opt := sched.Options{Bound: s.bound, MaxSteps: 100000, BoundAll: true, HoldBack: true}
	if s.race == "" || s.race == "tie" {
		opt.NoEarlyClock = true
	}
	if s.slowGo {
		opt.HoldLagNs = 1 << 60
	}
	body := s.Scen.Body(cfg, func(i int) bool { return i == fi })
	return hx.ExploreScenario(c, "C05", s.name(), opt, body, s.judge)
}

func (s scen) judge(e *sched.Exec) (string, string, *sched.Failure) {
	w := stack.WorldOf(e)
	if e.Crash != nil {
		return stack.CrashFailure(e, "3")
	}
	if e.Status() != sched.Finished {
		return e.Status().String(), "", &sched.Failure{Clause: "3", Sig: "hang", Msg: "an invocation never got an answer: " + fmt.Sprint(e.Blocked) + "\n" + w.Render(false)}
	}
	var fail *sched.Failure
	failf := func(clause, sig, f string, a ...any) {
		if fail == nil {
			fail = &sched.Failure{Clause: clause, Sig: sig, Msg: fmt.Sprintf(f, a...) + "\n" + w.Render(false)}
		}
	}
	fi := s.FailingInvocation()
	if s.race != "" {
		fi = 2
	}
	var outs []string
	timedOut := false
	for i, inv := range w.Invokes {
		echo := string(faults.Echo(i))
		isTimeout := inv.Status == 200 && string(inv.Body) == timeoutText
		isEcho := inv.Status == 200 && string(inv.Body) == echo
		switch {
		case (i+1 == fi || i+1 == s.second) && s.race == "":
			// (2) the timeout outcome
			if !isTimeout {
				failf("2", "not-timeout-outcome", "invocation %d (a party stalls): status %d body %q instead of the timeout outcome", i+1, inv.Status, trunc(inv.Body))
			}
			timedOut = true
		case i+1 == fi:
			// race: either the response or the timeout outcome, never anything else
			if !isTimeout && !isEcho {
				failf("3", "race-outcome", "invocation %d (response around expiry): status %d body %q is neither the response nor the timeout outcome", i+1, inv.Status, trunc(inv.Body))
			}
			timedOut = isTimeout
		case s.second == -1 && i == 0:
			// first invocation of an exit-then-stall history: it fails by the exit (C06 judges how)
			if inv.Status != 502 {
				failf("5", "history-first-fault-outcome", "invocation 1 (runtime exits) ended with status %d", inv.Status)
			}
		case s.slowGo && isTimeout:
			// its own dispatch was slower than its timeout
		default:
			if !isEcho {
				failf("5", fmt.Sprintf("other-invocation-%s:status=%d:%s", rel(i+1, fi), inv.Status, bodyClass(inv.Body, echo)), "invocation %d (%s the timed-out one) ended with status %d body %q", i+1, rel(i+1, fi), inv.Status, trunc(inv.Body))
			}
		}
		if isTimeout {
			outs = append(outs, "timeout")
		} else if isEcho {
			outs = append(outs, "ok")
		} else {
			outs = append(outs, fmt.Sprintf("other:%d", inv.Status))
		}
		if (i+1 == fi || i+1 == s.second) && isTimeout {
			el := inv.AnsNs - inv.IssuedNs
			// (1) bounded answer; judged in virtual time, meaningful when no timer overtook a runnable thread
			if e.EarlyClock == 0 && !s.slowGo {
				if el < int64(T)*1e9 {
					failf("1", "timeout-too-early", "invocation %d timed out after %d ms, before the configured %d s", i+1, el/1e6, T)
				}
				if el > int64(T)*1e9+allowanceNs {
					failf("1", "timeout-too-late", "invocation %d answered %d ms after arrival, bound is timeout + %d ms", i+1, el/1e6, allowanceNs/1e6)
				}
			}
			// (4) every process started before the answer is dead before the answer
			dead := map[int]bool{}
			for _, k := range w.K.Log {
				if k.Kind == "exit" && sched.HB(k.At, inv.AnsAt) {
					dead[k.Pid] = true
				}
				// killed before the answer: SIGKILL cannot be caught (when the exit notice is handled is another matter)
				if k.Kind == "signal" && k.Sig == 9 && sched.HB(k.At, inv.AnsAt) {
					for pid, p := range w.K.Procs {
						if pid == k.Pid || (k.Group && p.Pgid == k.Pid) {
							dead[pid] = true
						}
					}
				}
			}
			for _, k := range w.K.Log {
				if (k.Kind == "exec" || k.Kind == "fork") && sched.HB(k.At, inv.AnsAt) && !dead[k.Pid] {
					failf("4", "process-survives-timeout:"+procClass(k), "process %d (%s) of the timed-out environment was not terminated before the answer", k.Pid, k.Path)
				}
			}
			// (5) the next invocation is served by freshly started processes
			if i+1 < len(w.Invokes) {
				next := w.Invokes[i+1]
				for _, c := range w.Calls {
					if c.Kind == "next" && c.Answered >= 0 && string(c.Body) == string(faults.Echo(i+1)) {
						for _, k := range w.K.Log {
							if k.Kind == "exec" && k.Pid == c.Pid && sched.HB(k.At, inv.AnsAt) {
								failf("5", "next-served-by-old-process", "invocation %d was served by process %d which belongs to the timed-out environment", i+2, c.Pid)
							}
						}
					}
				}
				_ = next
			}
		}
	}
	_ = timedOut
	return strings.Join(outs, ","), w.Render(false), fail
}

func bodyClass(b []byte, echo string) string {
	switch {
	case len(b) == 0:
		return "empty"
	case string(b) == echo:
		return "own-response"
	case string(b) == timeoutText:
		return "timeout-text"
	case strings.Contains(string(b), "errorType"):
		return "error-json"
	}
	return "other"
}

func procClass(k vexec.Event) string {
	if k.Path == stack.BootstrapPath {
		return "runtime"
	}
	if strings.HasSuffix(k.Path, "+helper") {
		return "forked-helper"
	}
	return "extension"
}

func rel(i, fi int) string {
	if i < fi {
		return "before"
	}
	return "after"
}

func trunc(b []byte) string {
	if len(b) > 120 {
		return string(b[:120]) + "..."
	}
	return string(b)
}

func init() {
	hx.Register(&hx.Property{ID: "C05", Scenarios: func(tier string) []hx.Scenario {
		var ss []scen
		add := func(next int, f faults.Fault, rtTerm, exTerm string, b int) {
			ff := f
			ss = append(ss, scen{Scen: faults.Scen{NExt: next, F: &ff, Timeout: T, OnTermRt: rtTerm, OnTermEx: exTerm}, bound: b})
		}
		maxExt := 1
		b0, b1 := 0, 1
		if tier == "thorough" {
			maxExt = 2
			b0, b1 = 1, 2
		}
		for next := 0; next <= maxExt; next++ {
			for _, at := range []int{1, 2} {
				// runtime stalls
				pts := []string{"after-next", "after-response"}
				if at == 1 {
					pts = append(pts, "before-next")
				}
				for _, p := range pts {
					add(next, faults.Fault{Who: "runtime", Point: p, Action: "stall", At: at}, "", "", b0)
					if next <= 1 {
						add(next, faults.Fault{Who: "runtime", Point: p, Action: "stall", At: at}, "ignore", "", b0)
					}
				}
				// extension stalls
				for x := 0; x < next; x++ {
					who := fmt.Sprintf("ext%d", x)
					epts := []string{"after-event"}
					if at == 1 {
						epts = append(epts, "before-register", "after-register")
					}
					for _, p := range epts {
						add(next, faults.Fault{Who: who, Point: p, Action: "stall", At: at}, "", "", b0)
						add(next, faults.Fault{Who: who, Point: p, Action: "stall", At: at}, "", "ignore", b0)
					}
				}
			}
		}
		// histories: the stall strikes again in the environment started after the first fault (a mechanism that
		// works once per emulator life would pass every single-fault scenario)
		for next := 0; next <= 1; next++ {
			for _, firstAct := range []string{"stall", "exit1"} {
				for _, pt := range []string{"after-next", "before-next"} {
					f1 := faults.Fault{Who: "runtime", Point: pt, Action: firstAct, At: 1, Phase: "p1"}
					f2 := faults.Fault{Who: "runtime", Point: "after-next", Action: "stall", At: 1, Phase: "p2"}
					sc := faults.Scen{NExt: next, F: &f1, More: []*faults.Fault{&f2}, Timeout: T, NInv: 4, PhaseOf: func(i int) string {
						if i == 1 {
							return "p1"
						}
						return "p2"
					}}
					if firstAct == "stall" {
						ss = append(ss, scen{Scen: sc, bound: b0, second: 2})
					} else {
						// the first invocation fails (exit), the second one must time out cleanly
						g := f2
						sc2 := faults.Scen{NExt: next, F: &g, More: []*faults.Fault{&f1}, Timeout: T, NInv: 4, PhaseOf: sc.PhaseOf, FailAt: 2}
						ss = append(ss, scen{Scen: sc2, bound: b0, second: -1})
					}
				}
			}
		}
		// a runtime that has a child of its own and has to be killed: the kill takes the whole group. (Only the runtime,
		// and only one that ignores TERM: a process that exits by itself is never killed - C09 forbids it - and the
		// supervisor has no handle on what it leaves behind.)
		for next := 0; next <= 1; next++ {
			for _, pt := range []string{"after-next", "before-next"} {
				f := faults.Fault{Who: "runtime", Point: pt, Action: "stall", At: 1}
				ss = append(ss, scen{Scen: faults.Scen{NExt: next, F: &f, Timeout: T, OnTermRt: "ignore"}, bound: b0, helper: true})
			}
		}
		// a few with deviations
		add(0, faults.Fault{Who: "runtime", Point: "after-next", Action: "stall", At: 1}, "", "", b1)
		add(0, faults.Fault{Who: "runtime", Point: "after-next", Action: "stall", At: 2}, "", "", b1)
		add(1, faults.Fault{Who: "runtime", Point: "after-response", Action: "stall", At: 2}, "", "", b1)
		add(1, faults.Fault{Who: "ext0", Point: "after-event", Action: "stall", At: 1}, "", "", b1)
		add(1, faults.Fault{Who: "ext0", Point: "after-register", Action: "stall", At: 1}, "", "", b1)
		add(1, faults.Fault{Who: "ext0", Point: "before-register", Action: "stall", At: 1}, "", "ignore", b1)
		// one goroutine of the emulator slower than a timer: NOT part of the check (see DESIGN I.2: every finding of
		// this mode needs one goroutine to stall for longer than a whole timeout or the 2 s reaping grace, which the
		// statement's time bounds exclude); kept for experiments with VERIF_SLOWGO=1
		for _, f := range []faults.Fault{{Who: "runtime", Point: "after-next", Action: "stall", At: 1}, {Who: "runtime", Point: "after-next", Action: "stall", At: 2},
			{Who: "runtime", Point: "after-response", Action: "stall", At: 2}} {
			ff := f
			if os.Getenv("VERIF_SLOWGO") != "" {
				ss = append(ss, scen{Scen: faults.Scen{NExt: 0, F: &ff, Timeout: T}, bound: b1, slowGo: true})
			}
		}
		for _, f := range []faults.Fault{{Who: "ext0", Point: "after-event", Action: "stall", At: 1}, {Who: "ext0", Point: "after-register", Action: "stall", At: 1}} {
			ff := f
			if os.Getenv("VERIF_SLOWGO") != "" {
				ss = append(ss, scen{Scen: faults.Scen{NExt: 1, F: &ff, Timeout: T}, bound: b1, slowGo: true})
			}
		}
		// expiry race: the runtime answers exactly at / around the expiry (timer ties are free choices), and
		// early expiry of the timeout at every scheduling point of a healthy invocation
		for _, d := range []int{2999, 3000, 3001} {
			for next := 0; next <= 1; next++ {
				ss = append(ss, scen{Scen: faults.Scen{NExt: next, Timeout: T}, race: "tie", delay: d, bound: b1})
			}
		}
		ss = append(ss, scen{Scen: faults.Scen{NExt: 0, Timeout: T}, race: "early", delay: 0, bound: b1})
		ss = append(ss, scen{Scen: faults.Scen{NExt: 1, Timeout: T}, race: "early", delay: 0, bound: b1})
		var out []hx.Scenario
		for _, s := range ss {
			s := s
			out = append(out, hx.Scenario{Name: s.name(), Run: s.run})
		}
		return out
	}})
}
