package c13

import (
	"encoding/json"
	"fmt"
	"strings"

	"go.amzn.com/verifh/hx"
	"go.amzn.com/verifh/stack"
	"go.amzn.com/verifrt/sched"
	"go.amzn.com/verifrt/vtime"
)

// "Every call after register must carry a known identifier" across generations: an identifier handed out before a
// reset is not known afterwards. Full closed emulator, one external extension; generation 1 serves one invocation
// and is reset (explicitly, or because its runtime exits in the second invocation); once the extension of generation
// 2 has registered, a process that kept the old identifier calls next / init error / exit error with it. Expected:
// 403 Extension.UnknownExtensionIdentifier, and the invocations of generation 2 are served as if nothing had happened.

type genScen struct {
	op    string // next | init-error | exit-error
	how   string // explicit | runtime-exit
	bound int
}

func (s genScen) name() string {
	return fmt.Sprintf("old-identifier-after-reset op=%s reset-by=%s B=%d", s.op, s.how, s.bound)
}

func echoN(i int) []byte { return []byte(fmt.Sprintf(`{"n":%d}`, i)) }

func (s genScen) run(c *hx.Ctx) *hx.ScenarioResult {
	cfg := &stack.Config{TimeoutSec: 3}
	cfg.Exts = []stack.ExtSpec{{Name: "e0", Body: stack.LoopExt([]string{"INVOKE", "SHUTDOWN"}, false)}}
	cfg.Runtime = func(rt *stack.Actor) {
		k := 0
		for {
			n := rt.Next()
			if n.Status != 200 {
				rt.Stall()
			}
			k++
			if s.how == "runtime-exit" && rt.Gen == 1 && k == 2 {
				rt.Exit(1)
			}
			if r := rt.Response(n.ReqID, n.Body); r.Status != 202 {
				rt.Stall()
			}
		}
	}
	cleanup := cfg.Prepare()
	defer cleanup()
	body := func() {
		w := stack.NewWorld(cfg)
		sched.Region(false)
		w.Invoke(echoN(0), nil)
		if s.how == "explicit" {
			w.Builder.DefaultInteropServer().Reset("explicit", 2000)
		} else {
			w.Invoke(echoN(100), nil) // the runtime exits: failure reset
		}
		vtime.Sleep(200 * 1e6)
		old, nreg := "", 0
		for _, k := range w.Calls {
			if k.Kind == "register" && k.Answered >= 0 && k.Status == 200 {
				nreg++
				old = k.Header.Get("Lambda-Extension-Identifier")
			}
		}
		g := &stack.Actor{W: w, P: w.K.Detached("/ghost"), Name: "ghost", Gen: 1, ExtID: old}
		sched.Region(true)
		sched.Go("ghost", func() {
			defer stack.QuietExit()
			sched.Block("await-new-registration", nil, func() bool {
				n := 0
				for _, k := range w.Calls {
					if k.Kind == "register" && k.Answered >= 0 && k.Status == 200 {
						n++
					}
				}
				return n > nreg
			})
			switch s.op {
			case "next":
				g.ExtNext()
			case "init-error":
				g.ExtInitError("Ghost.Error")
			case "exit-error":
				g.ExtExitError("Ghost.Error")
			}
		})
		w.Invoke(echoN(1), nil)
		sched.Region(false)
		vtime.Sleep(300 * 1e6)
		w.Invoke(echoN(2), nil)
		sched.Finish()
	}
	judge := func(e *sched.Exec) (string, string, *sched.Failure) {
		w := stack.WorldOf(e)
		if e.Crash != nil {
			return stack.CrashFailure(e, "1")
		}
		if e.Status() != sched.Finished {
			return e.Status().String(), "", &sched.Failure{Clause: "1", Sig: "hang", Msg: "hang: " + fmt.Sprint(e.Blocked) + "\n" + w.Render(false)}
		}
		var fail *sched.Failure
		failf := func(clause, sig, f string, a ...any) {
			if fail == nil {
				fail = &sched.Failure{Clause: clause, Sig: sig, Msg: fmt.Sprintf(f, a...) + "\n" + w.Render(false)}
			}
		}
		out := "ghost:not-run"
		for _, k := range w.Calls {
			if k.Actor != "ghost" {
				continue
			}
			if k.Answered < 0 {
				out = "ghost:never-answered"
				failf("1", "old-identifier-not-refused:"+s.op, "the %s call with an identifier of the earlier generation was never answered (it was taken for a live extension)", s.op)
				continue
			}
			var m struct {
				ErrorType string `json:"errorType"`
			}
			json.Unmarshal(k.Body, &m)
			out = fmt.Sprintf("ghost:%d:%s", k.Status, m.ErrorType)
			if k.Status != 403 || m.ErrorType != "Extension.UnknownExtensionIdentifier" {
				failf("1", "old-identifier-not-refused:"+s.op, "the %s call with an identifier of the earlier generation got status %d %s, expected 403 Extension.UnknownExtensionIdentifier", s.op, k.Status, m.ErrorType)
			}
		}
		// registration data returned equals what the platform was initialised with - in every generation
		firstAnswer := ""
		for _, k := range w.Calls {
			if k.Kind != "register" || k.Answered < 0 || k.Status != 200 {
				continue
			}
			if firstAnswer == "" {
				firstAnswer = string(k.Body)
			} else if string(k.Body) != firstAnswer {
				failf("3", "registration-data-differs-after-reset", "the extension of generation %d got the registration answer %q, the one of generation 1 got %q", k.Gen, k.Body, firstAnswer)
			}
		}
		if !strings.Contains(firstAnswer, `"functionName":"test_function"`) {
			failf("3", "registration-data", "registration answer %q does not carry the function name the emulator was initialised with", firstAnswer)
		}
		n := len(w.Invokes)
		for i, want := range [][]byte{echoN(1), echoN(2)} {
			inv := w.Invokes[n-2+i]
			out += fmt.Sprintf(",inv:%d", inv.Status)
			if inv.Status != 200 || string(inv.Body) != string(want) {
				failf("2", "refused-call-changed-state:"+s.op, "after the refused call invocation %d of the new generation ended with status %d body %q", i+1, inv.Status, string(inv.Body))
			}
		}
		return out, w.Render(false), fail
	}
	return hx.ExploreScenario(c, "C13", s.name(), sched.Options{Bound: s.bound, MaxSteps: 150000, BoundAll: true, NoEarlyClock: true, HoldBack: true}, body, judge)
}

func generationScenarios(tier string) []hx.Scenario {
	b := 0
	if tier == "thorough" {
		b = 1
	}
	var out []hx.Scenario
	for _, how := range []string{"explicit", "runtime-exit"} {
		for _, op := range []string{"next", "init-error", "exit-error"} {
			s := genScen{op: op, how: how, bound: b}
			out = append(out, hx.Scenario{Name: s.name(), Run: s.run})
		}
	}
	return out
}
