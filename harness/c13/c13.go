// Package c13 decides property C13: Extensions API registration rules and lifecycle automaton.
// A director drives 1-2 external extension processes, an internal extension (a thread of the runtime
// process) and the runtime call by call on the real server-level stack; a reference automaton written
// from the statement predicts status, error type, blocking and the register answer. At the end of every
// sequence all parties finish their protocol properly and one invocation is made: it must be delivered
// exactly to the subscribers, which shows that refused calls changed neither states nor barrier counts.
package c13

import (
	"encoding/json"
	"fmt"
	"strings"

	"go.amzn.com/verifh/hx"
	"go.amzn.com/verifh/stack"
	"go.amzn.com/verifrt/sched"
)

const (
	fnName, fnVersion, fnHandler, fnAccount = "fn-name", "7", "mod.handler", "123456789012"
)

type agState int

const (
	agNone agState = iota // external: launched, not registered; internal: unknown to the platform
	agRegistered
	agParked // inside next
	agInitError
	agExitError
)

type agent struct {
	name     string
	external bool
	st       agState
	events   []string
	hasID    bool
	inNext   bool // its polling thread is inside next (and stays there in these sequences)
}

type model struct {
	agents    map[string]*agent // by actor (E0, E1, I0)
	order     []string
	open      bool // registration open
	rtStarted bool
	rtParked  bool
}

func newModel(nExt int, withInt bool) *model {
	m := &model{agents: map[string]*agent{}, open: true}
	for i := 0; i < nExt; i++ {
		a := fmt.Sprintf("E%d", i)
		m.agents[a] = &agent{name: fmt.Sprintf("e%d", i), external: true}
		m.order = append(m.order, a)
	}
	if withInt {
		m.agents["I0"] = &agent{name: "int0"}
		m.order = append(m.order, "I0")
	}
	return m
}

func (m *model) clone() *model {
	c := &model{agents: map[string]*agent{}, order: m.order, open: m.open, rtStarted: m.rtStarted, rtParked: m.rtParked}
	for k, v := range m.agents {
		a := *v
		c.agents[k] = &a
	}
	return c
}

func (m *model) allExtRegistered() bool {
	for _, a := range m.agents {
		if a.external && a.st == agNone {
			return false
		}
	}
	return true
}

type pred struct {
	blocks    bool
	status    int
	etype     string
	either    bool // the statement leaves it open (idempotent repeat): 202 or 403 both fine
	regAnswer bool // check the register answer body
	account   bool
}

func refuse(t string) pred { return pred{status: 403, etype: t} }

func validEvents(evs []string, external bool) bool {
	for _, e := range evs {
		if e == "INVOKE" {
			continue
		}
		if e == "SHUTDOWN" && external {
			continue
		}
		return false
	}
	return true
}

// symbol = actor:op[:arg]
func (m *model) allowed(sym string) bool {
	p := strings.Split(sym, ":")
	actor := p[0]
	if actor == "RT" {
		return m.allExtRegistered() && !m.rtParked
	}
	a := m.agents[actor]
	if a == nil {
		return false
	}
	if a.inNext {
		// the extension's polling thread is inside next; another thread of it may still report an error
		return len(p) > 1 && (p[1] == "initerr" || p[1] == "exiterr")
	}
	if !a.external && !(m.allExtRegistered() && !m.rtParked) {
		return false // an internal extension lives in the runtime process: it exists once the runtime is started, and acts before the runtime polls
	}
	return true
}

func (m *model) apply(sym string) pred {
	p := strings.Split(sym, ":")
	actor, op := p[0], p[1]
	arg := ""
	if len(p) > 2 {
		arg = p[2]
	}
	if actor == "RT" {
		m.rtStarted, m.rtParked, m.open = true, true, false
		return pred{blocks: true}
	}
	a := m.agents[actor]
	switch op {
	case "reg", "regacct", "regjunk":
		evs := []string{}
		if arg != "" && arg != "none" {
			evs = strings.Split(arg, "+")
		}
		if !validEvents(evs, a.external) {
			return refuse("Extension.InvalidEventType")
		}
		if a.external {
			if a.st != agNone {
				return refuse("Extension.InvalidExtensionState")
			}
		} else {
			if !m.open {
				return refuse("Extension.RegistrationClosed")
			}
			if a.st != agNone {
				return refuse("Extension.InvalidExtensionState") // the name is taken (by itself)
			}
		}
		a.st, a.events, a.hasID = agRegistered, evs, true
		return pred{status: 200, regAnswer: true, account: op == "regacct"}
	case "regempty":
		return refuse("Extension.InvalidExtensionName")
	case "regas":
		// registering under the name of an (already registered) external extension
		return refuse("Extension.InvalidExtensionState")
	case "next":
		switch arg {
		case "missing":
			return refuse("Extension.MissingExtensionIdentifier")
		case "malformed":
			return refuse("Extension.InvalidExtensionIdentifier")
		case "unknown":
			return refuse("Extension.UnknownExtensionIdentifier")
		}
		if !a.hasID {
			return refuse("Extension.MissingExtensionIdentifier")
		}
		switch a.st {
		case agRegistered:
			a.st = agParked
			a.inNext = true
			return pred{blocks: true}
		default:
			return refuse("Extension.InvalidExtensionState")
		}
	case "initerr", "exiterr":
		if !a.hasID {
			return refuse("Extension.MissingExtensionIdentifier")
		}
		if arg == "untyped" {
			return refuse("Extension.MissingHeader")
		}
		if a.st == agParked {
			// after the first next: an init error comes too late, an exit error is still welcome
			if op == "initerr" {
				return refuse("Extension.InvalidExtensionState")
			}
			a.st = agExitError
			return pred{status: 202}
		}
		if op == "initerr" {
			switch a.st {
			case agRegistered:
				a.st = agInitError
				return pred{status: 202}
			case agInitError:
				return pred{either: true}
			}
			return refuse("Extension.InvalidExtensionState")
		}
		switch a.st {
		case agRegistered:
			a.st = agExitError
			return pred{status: 202}
		case agExitError:
			return pred{either: true}
		}
		return refuse("Extension.InvalidExtensionState")
	}
	panic(sym)
}

type slot struct {
	cmd  string
	busy bool
	last *stack.Call
}

type ctl struct {
	slots map[string]*slot
}

func etype(b []byte) string {
	var m struct {
		ErrorType string `json:"errorType"`
	}
	json.Unmarshal(b, &m)
	return m.ErrorType
}

func perform(x *stack.Actor, sym string) *stack.Call {
	p := strings.Split(sym, ":")
	op := p[1]
	arg := ""
	if len(p) > 2 {
		arg = p[2]
	}
	evs := func() []string {
		if arg == "" || arg == "none" {
			return []string{}
		}
		return strings.Split(arg, "+")
	}
	switch op {
	case "reg":
		return x.Register(evs(), "")
	case "regacct":
		return x.Register(evs(), "accountId")
	case "regjunk":
		return x.Register(evs(), "junk, moreJunk")
	case "regempty":
		return x.RegisterAs("", []string{"INVOKE"}, "")
	case "regas":
		return x.RegisterAs(arg, []string{"INVOKE"}, "")
	case "next":
		id := x.ExtID
		switch arg {
		case "missing":
			id = ""
		case "malformed":
			id = "not-a-uuid"
		case "unknown":
			id = "deadbeef-dead-beef-dead-beefdeadbeef"
		}
		h := map[string]string{}
		if id != "" {
			h["Lambda-Extension-Identifier"] = id
		}
		return x.Raw("extnext", "GET", "/2020-01-01/extension/event/next", h, nil)
	case "initerr", "exiterr":
		h := map[string]string{}
		if x.ExtID != "" {
			h["Lambda-Extension-Identifier"] = x.ExtID
		}
		if arg == "typed" {
			h["Lambda-Extension-Function-Error-Type"] = "Extension.Scripted"
		}
		path := "/2020-01-01/extension/init/error"
		if op == "exiterr" {
			path = "/2020-01-01/extension/exit/error"
		}
		return x.Raw("ext"+op, "POST", path, h, []byte(`{}`))
	}
	panic(sym)
}

func commandLoop(c *ctl, actor string, x *stack.Actor, rt bool) {
	s := c.slots[actor]
	for {
		sched.Block("await-command", nil, func() bool { return s.cmd != "" })
		cmd := s.cmd
		s.cmd = ""
		if rt && cmd == "RT:respond" && s.last != nil && s.last.ReqID != "" {
			x.Response(s.last.ReqID, []byte(`"done"`))
			s.last = x.Next()
		} else if rt {
			s.last = x.Next()
		} else {
			s.last = perform(x, cmd)
		}
		s.busy = false
	}
}

func runSeq(nExt int, withInt bool, seq []string) (func(), *stack.Config) {
	cfg := &stack.Config{TimeoutSec: 300}
	var c *ctl
	for i := 0; i < nExt; i++ {
		actor := fmt.Sprintf("E%d", i)
		cfg.Exts = append(cfg.Exts, stack.ExtSpec{Name: fmt.Sprintf("e%d", i), Body: func(x *stack.Actor) { commandLoop(c, actor, x, false) }})
	}
	cfg.Runtime = func(rt *stack.Actor) {
		if withInt {
			x := &stack.Actor{W: rt.W, P: rt.P, Name: "int:int0", Gen: rt.Gen, Env: rt.Env}
			sched.Go("int:int0", func() {
				defer stack.QuietExit()
				commandLoop(c, "I0", x, false)
			})
		}
		commandLoop(c, "RT", rt, true)
	}
	body := func() {
		c = &ctl{slots: map[string]*slot{"RT": {}, "I0": {}}}
		for i := 0; i < nExt; i++ {
			c.slots[fmt.Sprintf("E%d", i)] = &slot{}
		}
		var mism []string
		w := stack.NewWorld(cfg)
		w.ServerInit(stack.InitParams{Handler: fnHandler, FunctionName: fnName, FunctionVersion: fnVersion, AccountID: fnAccount, TimeoutMs: 300000})
		sched.WaitQuiet()
		m := newModel(nExt, withInt)
		extIDs := map[string]string{}
		rtStarted := func() bool {
			for _, k := range w.K.Log {
				if k.Kind == "exec" && k.Path == stack.BootstrapPath {
					return true
				}
			}
			return false
		}
		issue := func(actor, sym string) (*stack.Call, bool) {
			s := c.slots[actor]
			s.cmd, s.busy = sym, true
			sched.WaitQuiet()
			return s.last, s.busy
		}
		for i, sym := range seq {
			if !m.allowed(sym) {
				break
			}
			actor := strings.Split(sym, ":")[0]
			before := m.agents[actor]
			stName := "-"
			if before != nil {
				stName = fmt.Sprint(before.st)
			}
			wasParked := before != nil && before.inNext
			p := m.apply(sym)
			var r *stack.Call
			var blocked bool
			if wasParked {
				// second thread of a parked extension: the director makes the call with that extension's identity
				x := &stack.Actor{W: w, P: w.K.Detached("/second-thread"), Name: "thread2:" + actor, Gen: 1, ExtID: extIDs[actor]}
				r = perform(x, sym)
			} else {
				r, blocked = issue(actor, sym)
				if r != nil && r.Kind == "register" && r.Status == 200 {
					extIDs[actor] = r.Header.Get("Lambda-Extension-Identifier")
				}
			}
			where := fmt.Sprintf("step %d (%s) agent-state %s", i, sym, stName)
			switch {
			case p.blocks != blocked:
				mism = append(mism, fmt.Sprintf("%s: reference blocks=%v, implementation blocks=%v", where, p.blocks, blocked))
			case blocked:
			case r.Aborted:
				mism = append(mism, fmt.Sprintf("%s: handler panicked: %s", where, r.Panic))
			case p.either:
				if r.Status != 202 && r.Status != 403 {
					mism = append(mism, fmt.Sprintf("%s: status %d, expected 202 or 403", where, r.Status))
				}
			case r.Status != p.status:
				mism = append(mism, fmt.Sprintf("%s: status %d (%s), reference %d %s", where, r.Status, etype(r.Body), p.status, p.etype))
			case p.etype != "" && etype(r.Body) != p.etype:
				mism = append(mism, fmt.Sprintf("%s: error type %q, reference %q", where, etype(r.Body), p.etype))
			case p.regAnswer:
				var ans map[string]string
				json.Unmarshal(r.Body, &ans)
				want := map[string]string{"functionName": fnName, "functionVersion": fnVersion, "handler": fnHandler}
				if p.account {
					want["accountId"] = fnAccount
				}
				if fmt.Sprint(ans) != fmt.Sprint(want) || r.Header.Get("Lambda-Extension-Identifier") == "" {
					mism = append(mism, fmt.Sprintf("%s: register answer %v (identifier %q), the platform was initialised with %v", where, ans, r.Header.Get("Lambda-Extension-Identifier"), want))
				}
			}
			if got, want := rtStarted(), m.allExtRegistered(); got != want && len(mism) == 0 {
				mism = append(mism, fmt.Sprintf("%s: runtime started=%v although every external extension registered=%v (a refused call moved a barrier)", where, got, want))
			}
			if len(mism) > 0 {
				break
			}
		}
		// completion: everybody finishes the protocol, then one invocation
		if len(mism) == 0 {
			broken := false
			for _, actor := range m.order {
				a := m.agents[actor]
				if a.st == agInitError || a.st == agExitError {
					broken = true
				}
			}
			if !broken {
				for _, actor := range m.order {
					a := m.agents[actor]
					if a.external && a.st == agNone {
						m.apply(actor + ":reg:INVOKE")
						if r, _ := issue(actor, actor+":reg:INVOKE"); r != nil && r.Status == 200 {
							extIDs[actor] = r.Header.Get("Lambda-Extension-Identifier")
						}
					}
				}
				for _, actor := range m.order {
					a := m.agents[actor]
					if !a.external && a.st == agNone {
						continue // an internal extension that never registered simply does not exist
					}
					if a.st == agRegistered {
						if a.external || !m.rtParked {
							m.apply(actor + ":next")
							if _, blocked := issue(actor, actor+":next"); !blocked {
								mism = append(mism, fmt.Sprintf("completion: %s's next did not park", actor))
							}
						}
					}
				}
				if !m.rtParked {
					m.apply("RT:next")
					issue("RT", "RT:next")
				}
				stuckInt := false
				for _, actor := range m.order {
					if a := m.agents[actor]; !a.external && a.st == agRegistered {
						stuckInt = true // registered but can no longer poll (the runtime polled first): initialisation cannot complete
					}
				}
				if !stuckInt {
					cl := sched.Go("client", func() { w.ServerInvoke([]byte(`{"final":true}`)) })
					sched.WaitQuiet()
					_ = cl
					if s := c.slots["RT"]; s.busy || s.last == nil || s.last.Status != 200 {
						mism = append(mism, "completion: every party arrived but the invocation was not delivered to the runtime (a refused call changed a state or a barrier count)")
					}
					for _, actor := range m.order {
						a := m.agents[actor]
						if a.st != agParked {
							continue
						}
						sub := false
						for _, e := range a.events {
							if e == "INVOKE" {
								sub = true
							}
						}
						s := c.slots[actor]
						got := !s.busy && s.last != nil && s.last.Status == 200 && stack.EventType(s.last) == "INVOKE"
						if sub != got {
							mism = append(mism, fmt.Sprintf("completion: %s subscribed to INVOKE=%v but received the event=%v", actor, sub, got))
						}
					}
					// invoke phase: an extension that received the event polls again (Running -> parked), a second thread of
					// it reports an exit error, the next invocation releases the parked call: the exit error is final
					for _, actor := range m.order {
						a := m.agents[actor]
						s := c.slots[actor]
						if a.st != agParked || s.busy || s.last == nil || s.last.Status != 200 || stack.EventType(s.last) != "INVOKE" {
							continue
						}
						if a.external == (len(seq)%3 == 0) {
							continue // in a third of the sequences an internal extension is taken, in the others an external one
						}
						if (len(seq)%2 == 1) == a.external {
							// variant: the extension itself, busy with the event (Running), reports the exit error
							if r, _ := issue(actor, actor+":exiterr:typed"); r == nil || r.Status != 202 {
								st := -1
								if r != nil {
									st = r.Status
								}
								mism = append(mism, fmt.Sprintf("completion: %s's exit error while it processes the event got status %d, expected 202", actor, st))
								break
							}
						} else {
							// everybody else who got the event polls again, so that the first invocation can complete
							for _, other := range m.order {
								so := c.slots[other]
								if other != actor && m.agents[other].st == agParked && !so.busy && so.last != nil && so.last.Status == 200 && stack.EventType(so.last) == "INVOKE" {
									issue(other, other+":next")
								}
							}
							if _, blocked := issue(actor, actor+":next"); !blocked {
								mism = append(mism, fmt.Sprintf("completion: %s's second next did not park", actor))
								break
							}
							x2 := &stack.Actor{W: w, P: w.K.Detached("/second-thread"), Name: "thread2:" + actor, Gen: 1, ExtID: extIDs[actor]}
							if r := perform(x2, actor+":exiterr:typed"); r.Status != 202 {
								mism = append(mism, fmt.Sprintf("completion: %s's exit error during its parked second next got status %d (%s), expected 202", actor, r.Status, etype(r.Body)))
								break
							}
							// the runtime answers the first invocation and polls again; the next invocation releases whoever is parked
							issue("RT", "RT:respond")
							sched.Go("client2", func() { defer stack.QuietExit(); w.ServerInvoke([]byte(`{"final":2}`)) })
							sched.WaitQuiet()
						}
						x3 := &stack.Actor{W: w, P: w.K.Detached("/after-final"), Name: "thread3:" + actor, Gen: 1, ExtID: extIDs[actor]}
						var r3 *stack.Call
						done := false
						sched.Go("after-final:"+actor, func() {
							defer stack.QuietExit()
							r3 = x3.ExtNext()
							done = true
						})
						sched.WaitQuiet()
						if !done {
							mism = append(mism, fmt.Sprintf("completion: %s reported an exit error in the invoke phase, yet a further next parks (the report was not final)", actor))
						} else if r3.Status != 403 {
							mism = append(mism, fmt.Sprintf("completion: %s reported an exit error in the invoke phase, yet a further next got status %d (%s) instead of 403", actor, r3.Status, etype(r3.Body)))
						}
						break // one extension is enough: the platform is failing now
					}
					// "both final": an extension that reported an exit error while its polling thread was parked stays in
					// that state when the parked call is released - a further next is refused, it does not park
					for _, actor := range m.order {
						a := m.agents[actor]
						if a.st != agExitError || !a.inNext || extIDs[actor] == "" {
							continue
						}
						x := &stack.Actor{W: w, P: w.K.Detached("/after-final"), Name: "thread3:" + actor, Gen: 1, ExtID: extIDs[actor]}
						var r *stack.Call
						done := false
						sched.Go("after-final:"+actor, func() {
							defer stack.QuietExit()
							r = x.ExtNext()
							done = true
						})
						sched.WaitQuiet()
						if !done {
							mism = append(mism, fmt.Sprintf("completion: %s reported an exit error, yet after the release of its parked call a further next parks (the final state was left)", actor))
						} else if r.Status != 403 {
							mism = append(mism, fmt.Sprintf("completion: %s reported an exit error, yet a further next got status %d (%s) instead of 403", actor, r.Status, etype(r.Body)))
						}
					}
				}
			}
		}
		sched.Cur().Values["mism"] = mism
		sched.Finish()
	}
	return body, cfg
}

func judge(e *sched.Exec) (string, string, *sched.Failure) {
	w := stack.WorldOf(e)
	if e.Crash != nil {
		return stack.CrashFailure(e, "1")
	}
	if e.Status() != sched.Finished {
		return e.Status().String(), "", &sched.Failure{Clause: "engine", Sig: "director-stuck:" + e.Status().String(), Msg: "the director did not finish: " + fmt.Sprint(e.Blocked) + "\n" + w.Render(false)}
	}
	mm, _ := e.Values["mism"].([]string)
	var out []string
	for _, c := range w.Calls {
		st := "blocked"
		if c.Answered >= 0 {
			st = fmt.Sprintf("%d%s", c.Status, strings.TrimPrefix(etype(c.Body), "Extension."))
		}
		out = append(out, st)
	}
	o := strings.Join(out, " ")
	if len(mm) > 0 {
		return o, o, &sched.Failure{Clause: "1", Sig: sigOf(mm[0]), Msg: strings.Join(mm, "\n") + "\n" + w.Render(false)}
	}
	return o, o, nil
}

func sigOf(m string) string {
	if strings.HasPrefix(m, "completion") {
		f := strings.Fields(m)
		if len(f) > 4 {
			return "completion:" + strings.Join(f[1:4], "_")
		}
		return "completion"
	}
	a, b := strings.Index(m, "("), strings.Index(m, ")")
	c := strings.Index(m, "agent-state ")
	d := strings.Index(m, ": ")
	if a < 0 || b < 0 || c < 0 || d < 0 {
		return "mismatch"
	}
	sym := m[a+1 : b]
	if i := strings.Index(sym, ":"); i >= 0 {
		sym = sym[i+1:] // drop the actor
	}
	return "mismatch:" + sym + "@" + m[c+12:d] + ":" + strings.Fields(m[d+2:])[0]
}

func alphabet(nExt int, withInt bool, reduced bool) []string {
	var out []string
	for i := 0; i < nExt; i++ {
		a := fmt.Sprintf("E%d", i)
		if reduced {
			out = append(out, a+":reg:INVOKE", a+":reg:SHUTDOWN", a+":reg:INVOKE+BOGUS", a+":reg:BOGUS+INVOKE", a+":next", a+":next:unknown", a+":initerr:typed", a+":exiterr:typed")
			continue
		}
		for _, ev := range []string{"none", "INVOKE", "SHUTDOWN", "INVOKE+SHUTDOWN", "BOGUS", "INVOKE+BOGUS", "BOGUS+INVOKE", "INVOKE+BOGUS+SHUTDOWN"} {
			out = append(out, a+":reg:"+ev)
		}
		out = append(out, a+":regacct:INVOKE", a+":regjunk:SHUTDOWN", a+":regempty")
		out = append(out, a+":next", a+":next:missing", a+":next:malformed", a+":next:unknown")
		out = append(out, a+":initerr:typed", a+":initerr:untyped", a+":exiterr:typed", a+":exiterr:untyped")
	}
	if withInt {
		if reduced {
			out = append(out, "I0:reg:INVOKE", "I0:reg:SHUTDOWN", "I0:regas:e0", "I0:next", "I0:exiterr:typed")
		} else {
			out = append(out, "I0:reg:none", "I0:reg:INVOKE", "I0:reg:SHUTDOWN", "I0:reg:BOGUS", "I0:reg:BOGUS+INVOKE", "I0:regacct:INVOKE", "I0:regas:e0", "I0:regempty",
				"I0:next", "I0:next:unknown", "I0:initerr:typed", "I0:initerr:untyped", "I0:exiterr:typed")
		}
	}
	out = append(out, "RT:next")
	if nExt == 0 {
		// registering under the name of an external extension needs one
		var f []string
		for _, a := range out {
			if a != "I0:regas:e0" {
				f = append(f, a)
			}
		}
		out = f
	}
	return out
}

func seqScenarios(nExt int, withInt bool, reduced bool, maxLen int) []hx.Scenario {
	alpha := alphabet(nExt, withInt, reduced)
	var out []hx.Scenario
	for _, first := range alpha {
		first := first
		name := fmt.Sprintf("ext=%d int=%v reduced=%v first=%s maxlen=%d", nExt, withInt, reduced, first, maxLen)
		out = append(out, hx.Scenario{Name: name, Run: func(c *hx.Ctx) *hx.ScenarioResult {
			res := &hx.ScenarioResult{Name: name, Exhaustive: true, Outcomes: map[string]int64{}}
			var rec func(seq []string, m *model)
			rec = func(seq []string, m *model) {
				if len(res.Violations) > 10 {
					return
				}
				if len(seq) >= 1 && (c.Replay == nil || fmt.Sprint(c.Replay.Input) == strings.Join(seq, ",")) {
					body, cfg := runSeq(nExt, withInt, seq)
					cleanup := cfg.Prepare()
					sub := hx.ExploreScenario(c, "C13", strings.Join(seq, ","), sched.Options{Bound: 0, MaxSteps: 80000, BoundAll: true, NoEarlyClock: true}, body, judge)
					cleanup()
					res.Execs += sub.Execs
					res.Evaluations += sub.Execs
					res.States += sub.States
					res.Transitions += sub.Transitions
					for k, v := range sub.Outcomes {
						res.Outcomes[k] += v
					}
					if len(res.Samples) < 2 {
						res.Samples = append(res.Samples, map[string]any{"sequence": strings.Join(seq, ",")})
					}
					for _, v := range sub.Violations {
						v.Scenario = name
						v.Input = strings.Join(seq, ",")
						res.Violations = append(res.Violations, v)
					}
				}
				if len(seq) == maxLen {
					return
				}
				for _, s := range alpha {
					if len(seq) == 0 && s != first {
						continue
					}
					if !m.allowed(s) {
						continue
					}
					m2 := m.clone()
					m2.apply(s)
					rec(append(append([]string{}, seq...), s), m2)
				}
			}
			rec(nil, newModel(nExt, withInt))
			res.Distinct = int64(len(res.Outcomes))
			return res
		}})
	}
	return out
}

// limitScenario: n extension files, optionally one internal extension; at most ten extensions exist.
func limitScenario(n int, withInt bool) hx.Scenario {
	name := fmt.Sprintf("limit files=%d internal=%v", n, withInt)
	return hx.Scenario{Name: name, Run: func(c *hx.Ctx) *hx.ScenarioResult {
		cfg := &stack.Config{TimeoutSec: 5}
		for i := 0; i < n; i++ {
			cfg.Exts = append(cfg.Exts, stack.ExtSpec{Name: fmt.Sprintf("x%02d", i), Body: stack.LoopExt([]string{"INVOKE"}, false)})
		}
		var intReg *stack.Call
		cfg.Runtime = func(rt *stack.Actor) {
			if withInt {
				x := &stack.Actor{W: rt.W, P: rt.P, Name: "int:extra", Gen: rt.Gen}
				r := x.Register([]string{"INVOKE"}, "")
				if rt.Gen == 1 {
					intReg = r
				}
				if r.Status == 200 {
					sched.Go("int:extra", func() {
						defer stack.QuietExit()
						for {
							if c := x.ExtNext(); c.Status != 200 {
								return
							}
						}
					})
				}
			}
			stack.EchoRuntime(nil)(rt)
		}
		cleanup := cfg.Prepare()
		defer cleanup()
		body := func() {
			intReg = nil
			w := stack.NewWorld(cfg)
			w.Invoke([]byte(`{"a":1}`), nil)
			sched.Cur().Values["intReg"] = intReg
			sched.Finish()
		}
		jd := func(e *sched.Exec) (string, string, *sched.Failure) {
			w := stack.WorldOf(e)
			if e.Crash != nil {
				return stack.CrashFailure(e, "1")
			}
			if e.Status() != sched.Finished {
				return e.Status().String(), "", &sched.Failure{Clause: "1", Sig: "hang", Msg: "hang: " + fmt.Sprint(e.Blocked)}
			}
			inv := w.Invokes[0]
			execs := 0
			for _, k := range w.K.Log {
				if k.Kind == "exec" && strings.HasPrefix(k.Path, "/opt/extensions/") && k.TimeNs == 0 {
					execs++
				}
			}
			o := fmt.Sprintf("status=%d launched=%d", inv.Status, execs)
			var f *sched.Failure
			total := n
			if total <= 10 {
				if inv.Status != 200 || string(inv.Body) != `{"a":1}` {
					f = &sched.Failure{Clause: "1", Sig: "limit-refused-allowed", Msg: fmt.Sprintf("%d extensions (<= 10) but the invocation ended with status %d %q (a refused registration changed a barrier count?)", n, inv.Status, inv.Body)}
				}
				ir, _ := e.Values["intReg"].(*stack.Call)
				if withInt && ir != nil {
					if n >= 10 && (ir.Status != 403 || etype(ir.Body) != "Extension.TooManyExtensions") {
						f = &sched.Failure{Clause: "1", Sig: "limit-internal-accepted", Msg: fmt.Sprintf("an internal extension registered as number %d got status %d %s", n+1, ir.Status, etype(ir.Body))}
					}
					if n < 10 && ir.Status != 200 {
						f = &sched.Failure{Clause: "1", Sig: "limit-internal-refused", Msg: fmt.Sprintf("an internal extension registered as number %d got status %d %s", n+1, ir.Status, etype(ir.Body))}
					}
				}
			} else if (inv.Status == 200 && string(inv.Body) == `{"a":1}`) || execs > 11 {
				f = &sched.Failure{Clause: "1", Sig: "limit-exceeded-accepted", Msg: fmt.Sprintf("%d extension files: invocation status %d, %d extension processes launched", n, inv.Status, execs)}
			}
			return o, o, f
		}
		return hx.ExploreScenario(c, "C13", name, sched.Options{Bound: 0, MaxSteps: 200000, BoundAll: true, NoEarlyClock: true}, body, jd)
	}}
}

func init() {
	hx.Register(&hx.Property{ID: "C13", Scenarios: func(tier string) []hx.Scenario {
		var out []hx.Scenario
		if tier == "quick" {
			out = append(out, seqScenarios(1, true, false, 3)...)
			out = append(out, seqScenarios(2, true, true, 3)...)
			out = append(out, seqScenarios(0, true, false, 4)...) // internal extension + runtime only, one step deeper
		} else {
			out = append(out, seqScenarios(0, true, false, 5)...)
			out = append(out, seqScenarios(1, true, false, 4)...)
			out = append(out, seqScenarios(2, true, true, 4)...)
		}
		for _, n := range []int{9, 10, 11} {
			out = append(out, limitScenario(n, false))
		}
		out = append(out, limitScenario(9, true), limitScenario(10, true))
		out = append(out, generationScenarios(tier)...)
		return out
	}})
}
