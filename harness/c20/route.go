package c20

import (
	"fmt"

	"go.amzn.com/verifh/hx"
	"go.amzn.com/verifh/stack"
	"go.amzn.com/verifrt/sched"
)

// "Error bodies themselves pass through untouched", on the real route: runtime -> Runtime API handler -> platform
// -> caller, full closed emulator. The body that was ACCEPTED is what the caller gets, byte for byte - also when the
// runtime posts a second, different report afterwards (refused).

var (
	bodyA = []byte(`{"errorMessage":"first report é世 <>& \"q\"","errorType":"Function.First","stackTrace":["a","b"]}`)
	bodyB = []byte(`{"errorMessage":"second report, refused; it is longer than the first one so that it would overwrite all of its bytes if they shared a buffer","errorType":"Function.Second","stackTrace":["x","y","z","w"]}`)
)

// sizedBody is an error document of exactly n bytes.
func sizedBody(n int) []byte {
	head, tail := `{"errorType":"Function.First","errorMessage":"`, `"}`
	b := []byte(head)
	for len(b) < n-len(tail) {
		b = append(b, "0123456789abcdef"[len(b)%16])
	}
	return append(b, tail...)
}

// routeScenario: size 0 = the short document above, otherwise a document of that many bytes (around and above the
// 64 KiB that bound the error cause - the body itself has no such bound).
func routeScenario(kind string, size int) hx.Scenario {
	name := "route/" + kind + "-body-reaches-the-caller-untouched"
	bodyA := bodyA
	if size > 0 {
		name += fmt.Sprintf("/bytes=%d", size)
		bodyA = sizedBody(size)
	}
	return hx.Scenario{Name: name, Run: func(c *hx.Ctx) *hx.ScenarioResult {
		cfg := &stack.Config{TimeoutSec: 3}
		cfg.Runtime = func(rt *stack.Actor) {
			if kind == "init-error-then-second-report" && rt.Gen == 1 {
				rt.InitError("Function.First", bodyA)
				rt.InitError("Function.Second", bodyB)
				rt.Exit(1)
			}
			for {
				n := rt.Next()
				if n.Status != 200 {
					rt.Stall()
				}
				if kind == "invocation-error-then-second-report" && rt.Gen == 1 {
					rt.Error(n.ReqID, "Function.First", bodyA)
					rt.Error(n.ReqID, "Function.Second", bodyB)
					continue
				}
				rt.Response(n.ReqID, n.Body)
			}
		}
		cleanup := cfg.Prepare()
		defer cleanup()
		body := func() {
			w := stack.NewWorld(cfg)
			w.Invoke([]byte(`{"n":1}`), nil)
			sched.Finish()
		}
		judge := func(e *sched.Exec) (string, string, *sched.Failure) {
			w := stack.WorldOf(e)
			if e.Crash != nil {
				return stack.CrashFailure(e, "d1-error-body-untouched")
			}
			if e.Status() != sched.Finished {
				return e.Status().String(), "", &sched.Failure{Clause: "engine", Sig: "route-did-not-finish", Msg: "the invocation never ended: " + fmt.Sprint(e.Blocked)}
			}
			inv := w.Invokes[0]
			out := fmt.Sprintf("%d:%d bytes", inv.Status, len(inv.Body))
			if string(inv.Body) != string(bodyA) {
				return out, out, &sched.Failure{Clause: "d1-error-body-untouched", Sig: "error-body-altered:" + kind, Msg: fmt.Sprintf("the runtime's accepted error report was %d bytes %q; the caller received status %d and %d bytes %q", len(bodyA), trunc(bodyA), inv.Status, len(inv.Body), trunc(inv.Body))}
			}
			return out, out, nil
		}
		return hx.ExploreScenario(c, propID, name, sched.Options{Bound: 0, MaxSteps: 100000, BoundAll: true, NoEarlyClock: true}, body, judge)
	}}
}

func routeScenarios(tier string) []hx.Scenario {
	out := []hx.Scenario{routeScenario("init-error-then-second-report", 0), routeScenario("invocation-error-then-second-report", 0)}
	for _, n := range []int{65535, 65536, 65537, 300 << 10} {
		out = append(out, routeScenario("invocation-error-then-second-report", n))
	}
	out = append(out, routeScenario("init-error-then-second-report", 65537))
	return out
}

func trunc(b []byte) string {
	if len(b) > 120 {
		return string(b[:60]) + "..." + string(b[len(b)-40:])
	}
	return string(b)
}
