// Package c20 decides property C20: client-supplied error metadata is sanitised and bounded.
//
// Pure bounded-exhaustive input enumeration (no scheduler, no sampling) of three functions:
//
//	(a) fatalerror.GetValidRuntimeOrFunctionErrorType   errtype.go
//	(b) model.ValidatedErrorCauseJSON                   cause.go
//	(c) appctx.UpdateAppCtxWithRuntimeRelease           release.go
//
// Every oracle is written from the property statement, not from the code under test.
package c20

import (
	"encoding/json"
	"fmt"
	"sort"
	"time"

	"go.amzn.com/verifh/hx"
)

const propID = "C20"

func init() {
	hx.Register(&hx.Property{ID: propID, Scenarios: func(tier string) []hx.Scenario {
		var s []hx.Scenario
		s = append(s, errTypeScenarios(tier)...)
		s = append(s, causeScenarios(tier)...)
		s = append(s, releaseScenarios(tier)...)
		s = append(s, routeScenarios(tier)...)
		return s
	}})
}

// maxViolPerSig bounds the number of violation records kept per signature and scenario (all are counted).
const maxViolPerSig = 2

// acc accumulates the result of one enumeration scenario.
type acc struct {
	c        *hx.Ctx
	name     string
	t0       time.Time
	res      *hx.ScenarioResult
	distinct map[string]struct{}
	perSig   map[string]int
	outcomes map[string]int64
	stopped  bool
	n        int64
}

func newAcc(c *hx.Ctx, name string) *acc {
	return &acc{c: c, name: name, t0: time.Now(), res: &hx.ScenarioResult{Name: name}, distinct: map[string]struct{}{},
		perSig: map[string]int{}, outcomes: map[string]int64{}}
}

// tick counts one evaluation; it returns false when the deadline has passed (checked every `every` calls).
func (a *acc) tick(every int64) bool {
	a.n++
	if a.n%every == 0 && !a.c.Deadline.IsZero() && time.Now().After(a.c.Deadline) {
		a.stopped = true
		return false
	}
	return true
}

func (a *acc) seen(class string)    { a.distinct[class] = struct{}{} }
func (a *acc) outcome(class string) { a.outcomes[class]++ }

func (a *acc) sample(in, out any) {
	if len(a.res.Samples) < 4 {
		a.res.Samples = append(a.res.Samples, map[string]any{"scenario": a.name, "input": in, "output": out})
	}
}

func (a *acc) violate(clause, sig, msg string, input any) {
	a.perSig[sig]++
	if a.perSig[sig] > maxViolPerSig {
		return
	}
	a.res.Violations = append(a.res.Violations, hx.ViolationRec{Property: propID, Scenario: a.name, Clause: clause, Msg: msg, Sig: sig, Input: input})
}

func (a *acc) finish() *hx.ScenarioResult {
	a.res.Evaluations = a.n
	a.res.Execs = a.n
	a.res.Distinct = int64(len(a.distinct))
	a.res.Exhaustive = !a.stopped
	if a.stopped {
		a.res.CapHit = "deadline reached inside the enumeration"
	}
	a.res.Outcomes = a.outcomes
	a.res.WallS = time.Since(a.t0).Seconds()
	// make the per-signature totals visible in the first record of each signature
	sigs := make([]string, 0, len(a.perSig))
	for s := range a.perSig {
		sigs = append(sigs, s)
	}
	sort.Strings(sigs)
	for _, s := range sigs {
		for i := range a.res.Violations {
			if a.res.Violations[i].Sig == s {
				a.res.Violations[i].Msg += fmt.Sprintf(" [%d inputs of this scenario fail with this signature]", a.perSig[s])
				break
			}
		}
	}
	return a.res
}

// replayInput converts the JSON-decoded Input of a violation record back into a typed value.
func replayInput(c *hx.Ctx, into any) error {
	b, err := json.Marshal(c.Replay.Input)
	if err != nil {
		return err
	}
	return json.Unmarshal(b, into)
}

// replayResult renders the outcome of a replay.
func replayResult(c *hx.Ctx, name string, vs []hx.ViolationRec) *hx.ScenarioResult {
	r := &hx.ScenarioResult{Name: name, Evaluations: 1, Execs: 1}
	for _, v := range vs {
		fmt.Fprintf(c.Out, "FAIL clause=%s sig=%s: %s\n", v.Clause, v.Sig, v.Msg)
	}
	if len(vs) == 0 {
		fmt.Fprintln(c.Out, "PASS (no clause violated on this input)")
	}
	r.Violations = vs
	return r
}

func clip(s string, n int) string {
	if len(s) <= n {
		return s
	}
	return fmt.Sprintf("%s...(%d bytes)", s[:n], len(s))
}
