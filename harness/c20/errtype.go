package c20

import (
	"fmt"
	"strings"

	"go.amzn.com/lambda/fatalerror"
	"go.amzn.com/verifh/hx"
)

// Part (a): the error type reported by the runtime.
//
// Statement: "An error type reported by the runtime is passed on only if it has exactly the form
// Runtime.X or Function.X with X a capitalised word of letters; anything else becomes Runtime.Unknown,
// or Function.Unknown if it starts with 'Function.'."

var errTypeTokens = []string{"Runtime", "Function", ".", "A", "b", "1", " ", "!", "é", "\n"}

// characters used for the single-character edits of the valid constants
var editChars = []string{"A", "b", "Z", "1", ".", " ", "!", "é", "\n", "_", "<", "\x00"}

var validConstants = []string{
	string(fatalerror.RuntimeExit), string(fatalerror.InvalidEntrypoint), string(fatalerror.InvalidWorkingDir),
	string(fatalerror.InvalidTaskConfig), string(fatalerror.TruncatedResponse), string(fatalerror.RuntimeInvalidResponseModeHeader),
	string(fatalerror.RuntimeUnknown), string(fatalerror.FunctionOversizedResponse), string(fatalerror.FunctionUnknown),
}

func isUpper(b byte) bool  { return b >= 'A' && b <= 'Z' }
func isLetter(b byte) bool { return (b >= 'A' && b <= 'Z') || (b >= 'a' && b <= 'z') }

// capitalisedWord: a capital letter followed by one or more letters, nothing else.
func capitalisedWord(x string) bool {
	if len(x) < 2 || !isUpper(x[0]) {
		return false
	}
	for i := 1; i < len(x); i++ {
		if !isLetter(x[i]) {
			return false
		}
	}
	return true
}

// exactForm: the WHOLE string is Runtime.X or Function.X.
func exactForm(s string) bool {
	for _, p := range []string{"Runtime.", "Function."} {
		if strings.HasPrefix(s, p) && capitalisedWord(s[len(p):]) {
			return true
		}
	}
	return false
}

// specErrorType is the reference: what the statement says must come out.
func specErrorType(s string) string {
	if exactForm(s) {
		return s
	}
	if strings.HasPrefix(s, "Function.") {
		return "Function.Unknown"
	}
	return "Runtime.Unknown"
}

// embeddedForm reports the first position at which something that begins like a valid type
// (Runtime.|Function. + capital + letter) starts inside s, or -1.
func embeddedForm(s string) int {
	for i := 0; i < len(s); i++ {
		for _, p := range []string{"Runtime.", "Function."} {
			if strings.HasPrefix(s[i:], p) {
				r := s[i+len(p):]
				if len(r) >= 2 && isUpper(r[0]) && isLetter(r[1]) {
					return i
				}
			}
		}
	}
	return -1
}

func inputClass(s string) string {
	switch {
	case exactForm(s) && strings.HasPrefix(s, "Runtime."):
		return "exact-runtime"
	case exactForm(s):
		return "exact-function"
	}
	c := "other"
	if strings.HasPrefix(s, "Function.") {
		c = "function-prefixed"
	}
	switch e := embeddedForm(s); {
	case e == 0:
		c += "+valid-form-then-junk"
	case e > 0:
		c += "+junk-then-valid-form"
	}
	return c
}

func outputClass(in, out string) string {
	switch {
	case out == "Runtime.Unknown" && in != out:
		return "->Runtime.Unknown"
	case out == "Function.Unknown" && in != out:
		return "->Function.Unknown"
	case out == in:
		return "->unchanged"
	}
	return "->other"
}

// judgeErrType evaluates one input; it returns the violation (sig=="" when none).
func judgeErrType(in string) (out, clause, sig, msg string) {
	out = string(fatalerror.GetValidRuntimeOrFunctionErrorType(in))
	want := specErrorType(in)
	if out == want {
		return out, "", "", ""
	}
	switch {
	case out == in:
		clause = "a1-only-exact-form-passes"
		switch e := embeddedForm(in); {
		case e > 0:
			sig = "errortype-unanchored-prefix"
			msg = fmt.Sprintf("error type %q is passed on unchanged although it is not of the form Runtime.X/Function.X (characters precede the well-formed part at offset %d); the statement requires %q", in, e, want)
		case e == 0:
			sig = "errortype-unanchored-suffix"
			msg = fmt.Sprintf("error type %q is passed on unchanged although it is not of the form Runtime.X/Function.X (characters other than letters follow the well-formed part); the statement requires %q", in, want)
		default:
			sig = "errortype-invalid-passed"
			msg = fmt.Sprintf("error type %q is passed on unchanged although it is not of the form Runtime.X/Function.X; the statement requires %q", in, want)
		}
	case want == in:
		clause, sig = "a2-exact-form-passes", "errortype-valid-rejected"
		msg = fmt.Sprintf("well-formed error type %q became %q", in, out)
	default:
		clause, sig = "a3-fallback", "errortype-wrong-fallback"
		msg = fmt.Sprintf("error type %q became %q, the statement requires %q", in, out, want)
	}
	return
}

func errTypeScenarios(tier string) []hx.Scenario {
	maxTok := 4
	if tier == "thorough" {
		maxTok = 5
	}
	var scen []hx.Scenario
	run := func(name string, enum func(yield func(string) bool)) hx.Scenario {
		return hx.Scenario{Name: name, Run: func(c *hx.Ctx) *hx.ScenarioResult {
			if c.Replay != nil {
				var in string
				if err := replayInput(c, &in); err != nil {
					fmt.Fprintln(c.Out, "bad replay input:", err)
					return &hx.ScenarioResult{Name: name}
				}
				out, clause, sig, msg := judgeErrType(in)
				fmt.Fprintf(c.Out, "input    %q\nreturned %q\nrequired %q (hand-written recogniser of the statement)\n", in, out, specErrorType(in))
				var vs []hx.ViolationRec
				if sig != "" {
					vs = append(vs, hx.ViolationRec{Property: propID, Scenario: name, Clause: clause, Sig: sig, Msg: msg, Input: in})
				}
				return replayResult(c, name, vs)
			}
			a := newAcc(c, name)
			outs := map[string]struct{}{}
			enum(func(in string) bool {
				if !a.tick(4096) {
					return false
				}
				out, clause, sig, msg := judgeErrType(in)
				outs[out] = struct{}{}
				cl := inputClass(in) + outputClass(in, out)
				if _, ok := a.distinct[cl]; !ok {
					a.sample(in, out)
				}
				a.seen(cl)
				a.outcome(cl)
				if sig != "" {
					a.violate(clause, sig, msg, in)
				}
				return true
			})
			r := a.finish()
			// distinct = distinct returned strings (measured), the class pairs are in Outcomes
			r.Distinct = int64(len(outs))
			return r
		}}
	}
	// all token strings, sharded by the first token; the empty string and the strings of one token ride with shard 0
	for first := range errTypeTokens {
		first := first
		scen = append(scen, run(fmt.Sprintf("errtype/tokens<=%d/first=%d", maxTok, first), func(yield func(string) bool) {
			if first == 0 && !yield("") {
				return
			}
			var rec func(prefix string, left int) bool
			rec = func(prefix string, left int) bool {
				if !yield(prefix) {
					return false
				}
				if left == 0 {
					return true
				}
				for _, t := range errTypeTokens {
					if !rec(prefix+t, left-1) {
						return false
					}
				}
				return true
			}
			rec(errTypeTokens[first], maxTok-1)
		}))
	}
	// every valid constant with one character inserted / deleted / replaced at each position
	scen = append(scen, run("errtype/constant-edits", func(yield func(string) bool) {
		for _, k := range validConstants {
			if !yield(k) {
				return
			}
			for pos := 0; pos <= len(k); pos++ {
				for _, ch := range editChars {
					if !yield(k[:pos] + ch + k[pos:]) { // insert
						return
					}
					if pos < len(k) && !yield(k[:pos]+ch+k[pos+1:]) { // replace
						return
					}
				}
				if pos < len(k) && !yield(k[:pos]+k[pos+1:]) { // delete
					return
				}
			}
		}
		// case variants of the prefixes and the other families of the package
		for _, s := range []string{"runtime.ExitError", "RUNTIME.ExitError", "function.Unknown", "Extension.Crash", "Sandbox.Failure", "Sandbox.Timeout",
			"Runtime.", "Function.", "Runtime", "Function", "Runtime.A", "Function.A", "Runtime.Ab", "Function.Ab", "Runtime.aB", "Function.aB"} {
			if !yield(s) {
				return
			}
		}
	}))
	return scen
}
