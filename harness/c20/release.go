package c20

import (
	"fmt"
	"net/http"
	"strings"

	"go.amzn.com/lambda/appctx"
	"go.amzn.com/verifh/hx"
)

// Part (c): the runtime identity string.
//
// Statement: "The runtime identity string derived from the user agent and feature list never grows
// beyond 128 bytes through features and is fixed once features were appended."
//
// The user agent contributes its first space separated token, so a stored value contains a space
// exactly if a feature list " (...)" has been appended. Clauses:
//   c1  a stored value that carries features is at most 128 bytes long
//   c2  once the stored value carries features, no later request changes it

const maxRelease = 128

var releaseLens = []int{0, 1, 60, 125, 126, 127, 128, 200}

func tokenOf(n int, ch byte) string {
	b := make([]byte, n)
	for i := range b {
		b[i] = ch
		if i%10 == 9 {
			b[i] = byte('0' + (i/10)%10)
		}
	}
	return string(b)
}

// withParens puts a '(' in the middle and a ')' at the end of a token of the same length.
func withParens(t string) string {
	switch len(t) {
	case 0:
		return t
	case 1:
		return ")"
	}
	b := []byte(t)
	b[len(b)/2] = '('
	b[len(b)-1] = ')'
	return string(b)
}

type relReq struct {
	UA       string `json:"user_agent"`
	Features string `json:"features"`
	NoUA     bool   `json:"no_user_agent_header,omitempty"`
	NoFeat   bool   `json:"no_features_header,omitempty"`
}

func userAgents(tier string) []string {
	var out []string
	for _, l := range releaseLens {
		t := tokenOf(l, 'u')
		out = append(out, t)
		if p := withParens(t); p != t && (tier == "thorough" || l == 1 || l == 60 || l == 127) {
			out = append(out, p)
		}
	}
	out = append(out, tokenOf(60, 'u')+" (Windows NT 6.1; Win64) Gecko/1", "  "+tokenOf(1, 'u')+" x")
	if tier == "thorough" {
		out = append(out, tokenOf(124, 'u'), tokenOf(121, 'u'), "\t"+tokenOf(125, 'u')+"\t(z)", "(", "a(b")
	}
	return out
}

func featureLists(tier string) []string {
	f := func(ls ...int) string {
		var p []string
		for i, l := range ls {
			p = append(p, tokenOf(l, byte('f'+i)))
		}
		return strings.Join(p, " ")
	}
	out := []string{""}
	for _, l := range releaseLens[1:] {
		out = append(out, f(l))
	}
	// exact fits: "Unknown" + 118, 1 + 124, 60 + 65 (and one more / one less)
	out = append(out, f(118), f(119), f(124), f(65), f(66), f(60, 4), f(60, 5), f(1, 1), f(200, 1), f(60, 2, 1), f(60, 2, 2))
	// parentheses and white space
	out = append(out, "(", "(a) b(c)d", "  "+f(60)+"   ) (  "+f(4)+" ")
	if tier == "thorough" {
		out = append(out, f(117), f(123), f(64), f(1, 200), f(1, 60, 1), f(126, 1), f(127, 1), f(1, 122), f(1, 123), f(60, 60), "( )", "a\tb", f(1, 1, 1)+" "+f(1, 1, 1),
			strings.Repeat("(", 200), withParens(f(125)))
	}
	return out
}

func mkRequest(r relReq) *http.Request {
	h := http.Header{}
	if !r.NoUA {
		h.Set("User-Agent", r.UA)
	}
	if !r.NoFeat {
		h.Set("Lambda-Runtime-Features", r.Features)
	}
	return &http.Request{Header: h}
}

// judgeRelease runs one sequence of requests on a fresh application context.
func judgeRelease(seq []*http.Request) (stored []string, clause, sig, msg string) {
	ctx := appctx.NewApplicationContext()
	prev := ""
	carries := false
	for i, rq := range seq {
		appctx.UpdateAppCtxWithRuntimeRelease(rq, ctx)
		cur := appctx.GetRuntimeRelease(ctx)
		stored = append(stored, cur)
		if carries && cur != prev && sig == "" {
			clause, sig = "c2-fixed-once-features-appended", "release-changed-after-features"
			msg = fmt.Sprintf("request %d changed the stored value from %q to %q although features had already been appended", i+1, prev, cur)
		}
		if strings.IndexByte(cur, ' ') >= 0 {
			carries = true
			if len(cur) > maxRelease && sig == "" {
				clause, sig = "c1-at-most-128-with-features", "release-over-128"
				msg = fmt.Sprintf("after request %d the stored value carries features and is %d bytes long (bound %d): %q", i+1, len(cur), maxRelease, cur)
			}
		}
		prev = cur
	}
	return
}

func lenClass(s string) string {
	c := fmt.Sprint(len(s))
	if strings.IndexByte(s, ' ') >= 0 {
		c += "f"
	}
	return c
}

func releaseScenarios(tier string) []hx.Scenario {
	uas, fls := userAgents(tier), featureLists(tier)
	var alphabet []relReq
	for _, u := range uas {
		for _, f := range fls {
			alphabet = append(alphabet, relReq{UA: u, Features: f})
		}
	}
	// absent headers (as opposed to empty ones)
	alphabet = append(alphabet, relReq{NoUA: true, NoFeat: true}, relReq{NoUA: true, Features: fls[1]}, relReq{UA: uas[1], NoFeat: true})
	var scen []hx.Scenario
	// shard by the user agent of the first request (the last shard takes the header-less ones)
	nsh := len(uas) + 1
	for sh := 0; sh < nsh; sh++ {
		sh := sh
		name := fmt.Sprintf("release/seq<=3/first-ua=%d", sh)
		scen = append(scen, hx.Scenario{Name: name, Run: func(c *hx.Ctx) *hx.ScenarioResult {
			if c.Replay != nil {
				var in []relReq
				if err := replayInput(c, &in); err != nil {
					fmt.Fprintln(c.Out, "bad replay input:", err)
					return &hx.ScenarioResult{Name: name}
				}
				var seq []*http.Request
				for _, r := range in {
					seq = append(seq, mkRequest(r))
				}
				stored, clause, sig, msg := judgeRelease(seq)
				for i, r := range in {
					fmt.Fprintf(c.Out, "request %d  User-Agent=%q Lambda-Runtime-Features=%q\n  stored -> %q (%d bytes)\n", i+1, r.UA, r.Features, stored[i], len(stored[i]))
				}
				var vs []hx.ViolationRec
				if sig != "" {
					vs = append(vs, hx.ViolationRec{Property: propID, Scenario: name, Clause: clause, Sig: sig, Msg: msg, Input: in})
				}
				return replayResult(c, name, vs)
			}
			a := newAcc(c, name)
			reqs := make([]*http.Request, len(alphabet))
			for i, r := range alphabet {
				reqs[i] = mkRequest(r)
			}
			lo, hi := sh*len(fls), (sh+1)*len(fls)
			if sh == nsh-1 {
				hi = len(alphabet)
			}
			seq := make([]*http.Request, 0, 3)
			idx := make([]int, 0, 3)
			eval := func() bool {
				if !a.tick(1 << 14) {
					return false
				}
				stored, clause, sig, msg := judgeRelease(seq)
				var cb strings.Builder
				for _, s := range stored {
					cb.WriteString(lenClass(s))
					cb.WriteByte('>')
				}
				cl := cb.String()
				if _, ok := a.distinct[cl]; !ok {
					a.distinct[cl] = struct{}{}
					if len(a.distinct)%17 == 1 {
						a.sample(inputOf(alphabet, idx), stored)
					}
				}
				if sig != "" {
					a.outcome(sig)
					a.violate(clause, sig, msg, inputOf(alphabet, idx))
				} else {
					a.outcome(fmt.Sprintf("ok/len=%d", len(seq)))
				}
				return true
			}
		outer:
			for i := lo; i < hi; i++ {
				seq, idx = append(seq[:0], reqs[i]), append(idx[:0], i)
				if !eval() {
					break
				}
				for j := range reqs {
					seq, idx = append(seq[:1], reqs[j]), append(idx[:1], j)
					if !eval() {
						break outer
					}
					for k := range reqs {
						seq, idx = append(seq[:2], reqs[k]), append(idx[:2], k)
						if !eval() {
							break outer
						}
					}
				}
			}
			return a.finish()
		}})
	}
	return scen
}

func inputOf(alphabet []relReq, idx []int) []relReq {
	out := make([]relReq, len(idx))
	for i, x := range idx {
		out[i] = alphabet[x]
	}
	return out
}
