package c20

import (
	"bytes"
	"encoding/json"
	"fmt"
	"go.amzn.com/lambda/rapi/handler"
	"reflect"
	"strings"
	"unicode/utf8"

	"go.amzn.com/lambda/rapi/model"
	"go.amzn.com/verifh/hx"
)

// Part (b): the X-Ray error cause.
//
// Statement: "An X-Ray error cause is passed on only as valid JSON of at most 64 KiB whose fields are
// the original ones, possibly shortened; causes without any recognised field or with invalid JSON are
// dropped."
//
// Clauses:
//   b1  a cause that is passed on is valid JSON (and valid UTF-8)
//   b2  a cause that is passed on is at most 64 KiB long
//   b3  every string field passed on is the original or a prefix of it, possibly terminated by "..."
//   b4  every array passed on is a prefix of the original array (elements unchanged); no invented fields
//   b5  a cause without any recognised field is dropped
//   b6  invalid JSON is dropped

const maxCause = 64 << 10 // "at most 64 KiB" of the statement

// field bits of a document
const (
	fExceptions = 1 << iota
	fWorkingDir
	fPaths
	fMessage
	fUnknown
	nFieldSets = 1 << 5
)

const unknownKey = "zz_not_an_xray_field"

// character classes
const (
	clsPlain = iota
	clsQuotes
	clsControl
	clsRune4
	clsInvalid
	clsHTML
	nClasses
)

var clsNames = [...]string{"plain", "quotes-backslashes", "control", "rune4", "invalid-utf8", "html-and-u2028"}

const plainAlphabet = "abcdefghijklmnopqrstuvwxyzABCDEFGHIJKLMNOPQRSTUVWXYZ0123456789 -_/.:"

type atom struct{ dec, enc string }

func letterAtom(i int) atom {
	c := plainAlphabet[i%len(plainAlphabet) : i%len(plainAlphabet)+1]
	return atom{c, c}
}

// atomAt gives the i-th atom of the (position dependent) content of a class: decoded bytes and the
// way they are written in the input document.
func atomAt(class, i, salt int) atom {
	switch class {
	case clsPlain:
		return letterAtom(i + i/len(plainAlphabet) + salt)
	case clsQuotes:
		switch i % 3 {
		case 0:
			return atom{`"`, `\"`}
		case 1:
			return atom{`\`, `\\`}
		}
		return letterAtom(i/3 + salt)
	case clsControl:
		switch i % 4 {
		case 0:
			return atom{"\x01", `\u0001`}
		case 1:
			return atom{"\n", `\n`}
		case 2:
			return atom{"\x1f", `\u001F`}
		}
		return letterAtom(i/4 + salt)
	case clsRune4:
		switch (i + salt) % 3 {
		case 0:
			return atom{"\U0001F600", "\U0001F600"}
		case 1:
			return atom{"\U0001D11E", `\ud834\udd1e`} // surrogate pair escape
		}
		return atom{"\U0001F680", "\U0001F680"}
	case clsInvalid:
		switch i % 4 {
		case 0:
			return atom{"\uFFFD", "\xff"} // a raw byte that is not UTF-8
		case 1:
			return letterAtom(i/4 + salt)
		case 2:
			return atom{"\uFFFD", `\ud800`} // lone surrogate escape
		}
		return letterAtom(i/4 + 7 + salt)
	case clsHTML:
		switch i % 5 {
		case 0:
			return atom{"<", "<"}
		case 1:
			return atom{">", ">"}
		case 2:
			return atom{"&", "&"}
		case 3:
			return atom{"\u2028", "\u2028"}
		}
		return letterAtom(i/5 + salt)
	}
	panic("class")
}

// genString builds a string of exactly n decoded bytes of the class: (decoded value, JSON string body).
// What does not fit a whole atom is filled with letters at the FRONT (so that multi-byte content is
// shifted against fixed byte offsets by n).
func genString(class, n, salt int) (string, string) {
	used, cnt := 0, 0
	for {
		a := atomAt(class, cnt, salt)
		if used+len(a.dec) > n {
			break
		}
		used += len(a.dec)
		cnt++
	}
	var dec, enc strings.Builder
	dec.Grow(n)
	enc.Grow(n + n/2)
	for i := 0; i < n-used; i++ {
		a := letterAtom(i + salt)
		dec.WriteString(a.dec)
		enc.WriteString(a.enc)
	}
	for i := 0; i < cnt; i++ {
		a := atomAt(class, i, salt)
		dec.WriteString(a.dec)
		enc.WriteString(a.enc)
	}
	return dec.String(), enc.String()
}

// causeSpec describes one generated document (this is also the replay input).
type causeSpec struct {
	Fields int `json:"fields"` // bit set
	Size   int `json:"size"`   // decoded byte length of working_directory / message / the unknown field
	Class  int `json:"class"`
	ArrLen int `json:"arr_len"` // number of elements of exceptions / paths
	// malformed family
	Malformed string `json:"malformed,omitempty"` // "", "trunc", "literal"
	Pos       int    `json:"pos,omitempty"`
}

func (s causeSpec) String() string {
	if s.Malformed != "" {
		return fmt.Sprintf("%s@%d", s.Malformed, s.Pos)
	}
	var f []string
	for i, n := range []string{"exceptions", "working_directory", "paths", "message", "unknown"} {
		if s.Fields&(1<<i) != 0 {
			f = append(f, n)
		}
	}
	return fmt.Sprintf("{%s} size=%d class=%s arr=%d", strings.Join(f, ","), s.Size, clsNames[s.Class], s.ArrLen)
}

// element i of the two arrays: decoded value and encoded text
func pathAt(class, i int) (string, string) {
	d, e := genString(class, 6+i%5, i)
	p := fmt.Sprintf("/var/task/%d/", i)
	return p + d, p + e
}

func exceptionAt(class, i int) (map[string]any, string) {
	md, me := genString(class, 8+i%3, i+1)
	pd, pe := genString(class, 5+i%4, i+2)
	dec := map[string]any{
		"message": md,
		"type":    fmt.Sprintf("T%d", i),
		"stack":   []any{map[string]any{"path": "/p/" + pd, "line": float64(i + 1), "label": fmt.Sprintf("fn%d", i)}},
	}
	enc := fmt.Sprintf(`{"message":"%s","type":"T%d","stack":[{"path":"/p/%s","line":%d,"label":"fn%d"}]}`, me, i, pe, i+1, i)
	return dec, enc
}

// strCache keeps the big strings and array texts of one scenario (they depend on class, size and salt only).
type strCache map[[3]int][2]string

func (sc strCache) get(class, n, salt int) (string, string) {
	k := [3]int{class, n, salt}
	if v, ok := sc[k]; ok {
		return v[0], v[1]
	}
	d, e := genString(class, n, salt)
	sc.put(k, [2]string{d, e})
	return d, e
}

func (sc strCache) put(k [3]int, v [2]string) {
	if len(sc) > 10 {
		for k := range sc {
			delete(sc, k)
		}
	}
	sc[k] = v
}

// arrayText is the text of the exceptions (kind -1) or paths (kind -2) array of n elements.
func (sc strCache) arrayText(kind, class, n int) string {
	k := [3]int{kind, class, n}
	if v, ok := sc[k]; ok {
		return v[1]
	}
	var b strings.Builder
	b.WriteByte('[')
	for i := 0; i < n; i++ {
		if i > 0 {
			b.WriteByte(',')
		}
		if kind == -1 {
			_, e := exceptionAt(class, i)
			b.WriteString(e)
		} else {
			_, e := pathAt(class, i)
			b.WriteByte('"')
			b.WriteString(e)
			b.WriteByte('"')
		}
	}
	b.WriteByte(']')
	sc.put(k, [2]string{"", b.String()})
	return b.String()
}

const (
	saltWD  = 3
	saltMsg = 11
	saltUnk = 23
)

// buildDoc writes the input document of a spec.
func buildDoc(s causeSpec, sc strCache) []byte {
	var b bytes.Buffer
	b.WriteByte('{')
	first := true
	key := func(k string) {
		if !first {
			b.WriteByte(',')
		}
		first = false
		b.WriteByte('"')
		b.WriteString(k)
		b.WriteString(`":`)
	}
	if s.Fields&fUnknown != 0 {
		_, e := sc.get(s.Class, s.Size, saltUnk)
		key(unknownKey)
		b.WriteByte('"')
		b.WriteString(e)
		b.WriteByte('"')
	}
	if s.Fields&fExceptions != 0 {
		key("exceptions")
		b.WriteString(sc.arrayText(-1, s.Class, s.ArrLen))
	}
	if s.Fields&fWorkingDir != 0 {
		_, e := sc.get(s.Class, s.Size, saltWD)
		key("working_directory")
		b.WriteByte('"')
		b.WriteString(e)
		b.WriteByte('"')
	}
	if s.Fields&fPaths != 0 {
		key("paths")
		b.WriteString(sc.arrayText(-2, s.Class, s.ArrLen))
	}
	if s.Fields&fMessage != 0 {
		_, e := sc.get(s.Class, s.Size, saltMsg)
		key("message")
		b.WriteByte('"')
		b.WriteString(e)
		b.WriteByte('"')
	}
	b.WriteByte('}')
	return b.Bytes()
}

// collapse normalises replacement characters: every run of U+FFFD counts as one. It is applied to both
// sides for the invalid-UTF-8 class only, where the original bytes cannot be represented in valid JSON
// and decoders differ in how many replacement characters they produce.
func collapse(s string) string {
	const r = "\uFFFD"
	for strings.Contains(s, r+r) {
		s = strings.ReplaceAll(s, r+r, r)
	}
	return s
}

func normalise(class int, v any) any {
	if class != clsInvalid {
		return v
	}
	switch x := v.(type) {
	case string:
		return collapse(x)
	case []any:
		o := make([]any, len(x))
		for i := range x {
			o[i] = normalise(class, x[i])
		}
		return o
	case map[string]any:
		o := map[string]any{}
		for k, e := range x {
			o[k] = normalise(class, e)
		}
		return o
	}
	return v
}

// shortened classifies got against the original string.
func shortened(class int, orig, got string) string {
	if class == clsInvalid {
		orig, got = collapse(orig), collapse(got)
	}
	switch {
	case got == orig:
		return "same"
	case strings.HasPrefix(orig, got):
		return "prefix"
	case strings.HasSuffix(got, "...") && strings.HasPrefix(orig, got[:len(got)-3]):
		return "prefix..."
	}
	// a prefix whose last character was cut in the middle of its UTF-8 encoding shows up as a prefix
	// followed by replacement characters that the original does not contain
	g := strings.TrimSuffix(got, "...")
	g2 := strings.TrimRight(g, "\uFFFD")
	if g2 != g && strings.HasPrefix(orig, g2) && len(g2) < len(orig) {
		if _, sz := utf8.DecodeRuneInString(orig[len(g2):]); sz > 1 {
			return "split-rune"
		}
	}
	return "different"
}

type viol struct{ clause, sig, msg string }

// judgeCause runs one document through the function and checks every clause. outClass describes what
// happened (for the distinct count).
func judgeCause(s causeSpec, doc []byte, sc strCache) (outClass string, out []byte, vs []viol) {
	out, err := model.ValidatedErrorCauseJSON(doc)
	add := func(clause, sig, f string, a ...any) { vs = append(vs, viol{clause, sig, fmt.Sprintf(f, a...)}) }
	// the handler's own step (header route) passes on exactly what the validation yields, nothing when it drops
	if len(doc) > 0 && len(doc) < 200000 {
		viaHandler := handler.VerifValidatedErrorCause(string(doc))
		if (err != nil && viaHandler != nil) || (err == nil && string(viaHandler) != string(out)) {
			add("b5/b6-non-cause-dropped", "errorcause-handler-bypasses-validation", "the invocation-error handler passes on %q for the cause header %q; the validation yields %q (err=%v)", clip(string(viaHandler), 120), clip(string(doc), 120), clip(string(out), 120), err)
		}
	}

	if s.Malformed != "" {
		if err == nil {
			add("b5/b6-non-cause-dropped", "errorcause-invalid-json-passed", "malformed document %q was passed on as %q", clip(string(doc), 120), clip(string(out), 120))
			return "malformed->passed", out, vs
		}
		return "malformed->dropped", out, vs
	}
	recognised := s.Fields & (fExceptions | fWorkingDir | fPaths | fMessage)
	if err != nil {
		outClass = "dropped"
		return
	}
	// passed on
	if recognised == 0 {
		add("b5-no-recognised-field-dropped", "errorcause-unrecognised-passed", "a cause without any recognised field (%s) was passed on as %q", s, clip(string(out), 120))
	}
	if len(out) > maxCause {
		sig := "errorcause-over-64k"
		if s.Class != clsPlain && s.Class != clsRune4 {
			sig = "errorcause-over-64k-escapes"
		}
		add("b2-at-most-64KiB", sig, "the cause passed on for %s is %d bytes long, the bound is %d", s, len(out), maxCause)
	}
	var g map[string]any
	if !json.Valid(out) || !utf8.Valid(out) || json.Unmarshal(out, &g) != nil {
		add("b1-valid-json", "errorcause-output-invalid-json", "the cause passed on for %s is not valid JSON: %q", s, clip(string(out), 120))
		return "passed-invalid", out, vs
	}
	cls := []string{}
	for k, v := range g {
		switch k {
		case "working_directory", "message":
			str, ok := v.(string)
			if v == nil {
				str, ok = "", true
			}
			if !ok {
				add("b3-string-fields-prefix", "errorcause-field-type:"+k, "field %s of the output is not a string", k)
				continue
			}
			orig := ""
			if k == "message" && s.Fields&fMessage != 0 {
				orig, _ = sc.get(s.Class, s.Size, saltMsg)
			}
			if k == "working_directory" && s.Fields&fWorkingDir != 0 {
				orig, _ = sc.get(s.Class, s.Size, saltWD)
			}
			how := shortened(s.Class, orig, str)
			switch how {
			case "split-rune":
				add("b3-string-fields-prefix", "errorcause-crop-splits-rune", "field %s of %s was cut inside a multi-byte character: the output ends with %q, which is not a prefix of the original (original continues %q)",
					k, s, tail(str, 12), clip(origFrom(orig, len(strings.TrimRight(strings.TrimSuffix(str, "..."), "\uFFFD"))), 8))
			case "different":
				add("b3-string-fields-prefix", "errorcause-field-not-prefix:"+k, "field %s of %s is neither the original nor a prefix of it: got %q (len %d), original %q (len %d)",
					k, s, clip(str, 60), len(str), clip(orig, 60), len(orig))
			}
			if orig != "" {
				cls = append(cls, k+"="+how)
			}
		case "paths":
			arr, ok := v.([]any)
			if v != nil && !ok {
				add("b4-arrays-prefix", "errorcause-field-type:paths", "paths of the output is not an array")
				continue
			}
			n := 0
			if s.Fields&fPaths != 0 {
				n = s.ArrLen
			}
			if len(arr) > n {
				add("b4-arrays-prefix", "errorcause-array-not-prefix:paths", "paths of %s has %d elements, the original has %d", s, len(arr), n)
				continue
			}
			for i, e := range arr {
				d, _ := pathAt(s.Class, i)
				if !reflect.DeepEqual(normalise(s.Class, e), normalise(s.Class, d)) {
					add("b4-arrays-prefix", "errorcause-array-not-prefix:paths", "paths[%d] of %s is %q, the original is %q", i, s, e, d)
					break
				}
			}
			if n > 0 {
				cls = append(cls, arrClass("paths", len(arr), n))
			}
		case "exceptions":
			arr, ok := v.([]any)
			if v != nil && !ok {
				add("b4-arrays-prefix", "errorcause-field-type:exceptions", "exceptions of the output is not an array")
				continue
			}
			n := 0
			if s.Fields&fExceptions != 0 {
				n = s.ArrLen
			}
			if len(arr) > n {
				add("b4-arrays-prefix", "errorcause-array-not-prefix:exceptions", "exceptions of %s has %d elements, the original has %d", s, len(arr), n)
				continue
			}
			for i, e := range arr {
				d, _ := exceptionAt(s.Class, i)
				if !reflect.DeepEqual(normalise(s.Class, e), normalise(s.Class, d)) {
					add("b4-arrays-prefix", "errorcause-array-not-prefix:exceptions", "exceptions[%d] of %s is %v, the original is %v", i, s, e, d)
					break
				}
			}
			if n > 0 {
				cls = append(cls, arrClass("exceptions", len(arr), n))
			}
		case unknownKey:
			// not a recognised field: the statement does not say whether it survives; if it does it must be the original
			orig := ""
			if s.Fields&fUnknown != 0 {
				orig, _ = sc.get(s.Class, s.Size, saltUnk)
			}
			if str, ok := v.(string); !ok || shortened(s.Class, orig, str) == "different" {
				add("b4-arrays-prefix", "errorcause-invented-field", "unrecognised field of %s came out changed", s)
			}
		default:
			add("b4-arrays-prefix", "errorcause-invented-field", "the output for %s has a field %q that the original does not have", s, k)
		}
	}
	// stable order of the class string
	sortStrings(cls)
	return "passed[" + strings.Join(cls, ",") + "]", out, vs
}

func arrClass(k string, got, n int) string {
	switch {
	case got == n:
		return k + "=same"
	case got == 0:
		return k + "=emptied"
	}
	return fmt.Sprintf("%s=cut-to-%d%%", k, (got*100/n+5)/10*10)
}

func sortStrings(s []string) {
	for i := 1; i < len(s); i++ {
		for j := i; j > 0 && s[j] < s[j-1]; j-- {
			s[j], s[j-1] = s[j-1], s[j]
		}
	}
}

func origFrom(orig string, i int) string {
	if i > len(orig) {
		i = len(orig)
	}
	return orig[i:]
}

func tail(s string, n int) string {
	if len(s) <= n {
		return s
	}
	return s[len(s)-n:]
}

func sizeClass(n int) string {
	switch {
	case n == 0:
		return "0"
	case n < 1024:
		return "small"
	case n < maxCause-200:
		return "<64K"
	case n <= maxCause+200:
		return "~64K"
	}
	return ">64K"
}

func (s causeSpec) class() string {
	return fmt.Sprintf("f%02x/%s/%s/arr%d", s.Fields, sizeClass(s.Size), clsNames[s.Class], s.ArrLen)
}

// the small valid document whose every proper prefix is tried
const smallDoc = `{"exceptions":[{"message":"m\"x","type":"T","stack":[{"path":"p","line":1,"label":"l"}]}],"working_directory":"/var/task","paths":["a","bA"],"message":"boom"}`

// valid-or-invalid literal documents; all must be dropped: either invalid JSON or no recognised field
var literalDocs = []string{
	``, ` `, `null`, `true`, `0`, `"message"`, `[]`, `[{"message":"x"}]`, `{}`, `{"` + unknownKey + `":1}`,
	smallDoc + `x`, smallDoc + smallDoc, `{"message":"a` + "\x01" + `b"}`, `{"message":"a` + "\n" + `b"}`, `{"message":'x'}`, `{message:"x"}`,
	`{"message":"x",}`, `{"message":"\x41"}`, `{"message":"\ud83d"` + `,}`,
}

func causeScenarios(tier string) []hx.Scenario {
	big := 1 << 20
	if tier == "thorough" {
		big = 8 << 20
	}
	sizes := []int{0, 40, maxCause - 1, maxCause, maxCause + 1, big}
	arrLens := []int{0, 1, 1000, 100000}
	var scen []hx.Scenario

	runSpecs := func(name string, specs func(yield func(causeSpec) bool)) hx.Scenario {
		return hx.Scenario{Name: name, Run: func(c *hx.Ctx) *hx.ScenarioResult {
			sc := strCache{}
			if c.Replay != nil {
				var s causeSpec
				if err := replayInput(c, &s); err != nil {
					fmt.Fprintln(c.Out, "bad replay input:", err)
					return &hx.ScenarioResult{Name: name}
				}
				doc := docOf(s, sc)
				cls, out, vs := judgeCause(s, doc, sc)
				fmt.Fprintf(c.Out, "input    %s\n         document of %d bytes: %q\noutcome  %s\n         output of %d bytes: %q\n", s, len(doc), clip(string(doc), 160), cls, len(out), clip(string(out), 160))
				var recs []hx.ViolationRec
				for _, v := range vs {
					recs = append(recs, hx.ViolationRec{Property: propID, Scenario: name, Clause: v.clause, Sig: v.sig, Msg: v.msg, Input: s})
				}
				return replayResult(c, name, recs)
			}
			a := newAcc(c, name)
			specs(func(s causeSpec) bool {
				if !a.tick(1) {
					return false
				}
				doc := docOf(s, sc)
				cls, out, vs := judgeCause(s, doc, sc)
				key := s.class() + "->" + cls
				if s.Malformed != "" {
					key = s.Malformed + "->" + cls
				}
				if _, ok := a.distinct[key]; !ok {
					a.sample(map[string]any{"spec": s, "doc_bytes": len(doc), "doc_head": clip(string(doc), 80)}, map[string]any{"class": cls, "out_bytes": len(out), "out_head": clip(string(out), 80)})
				}
				a.seen(key)
				a.outcome(cls)
				for _, v := range vs {
					a.violate(v.clause, v.sig, v.msg, s)
				}
				return true
			})
			return a.finish()
		}}
	}

	// grammar: one scenario per (class, size, array length); inside: every field subset.
	// A subset without a string field is only enumerated at the first size, one without an array field
	// only at the first array length (the other combinations denote the same document).
	for class := 0; class < nClasses; class++ {
		for _, size := range sizes {
			for _, al := range arrLens {
				class, size, al := class, size, al
				name := fmt.Sprintf("cause/grammar/%s/size=%d/arr=%d", clsNames[class], size, al)
				scen = append(scen, runSpecs(name, func(yield func(causeSpec) bool) {
					for f := 0; f < nFieldSets; f++ {
						if f&(fWorkingDir|fMessage|fUnknown) == 0 && size != sizes[0] {
							continue
						}
						if f&(fExceptions|fPaths) == 0 && al != arrLens[0] {
							continue
						}
						if !yield(causeSpec{Fields: f, Size: size, Class: class, ArrLen: al}) {
							return
						}
					}
				}))
			}
		}
	}
	// boundary sweep: every size around the point where the re-marshalled document crosses 64 KiB
	for class := 0; class < nClasses; class++ {
		for _, f := range []int{fMessage, fWorkingDir, fMessage | fWorkingDir, fMessage | fPaths, fWorkingDir | fExceptions} {
			class, f := class, f
			scen = append(scen, runSpecs(fmt.Sprintf("cause/boundary-sweep/%s/fields=%02x", clsNames[class], f), func(yield func(causeSpec) bool) {
				al := 0
				if f&(fPaths|fExceptions) != 0 {
					al = 1
				}
				for n := maxCause - 250; n <= maxCause+4; n++ {
					if !yield(causeSpec{Fields: f, Size: n, Class: class, ArrLen: al}) {
						return
					}
				}
				// both strings at half the bound
				for n := maxCause/2 - 125; n <= maxCause/2+4; n++ {
					if !yield(causeSpec{Fields: f, Size: n, Class: class, ArrLen: al}) {
						return
					}
				}
			}))
		}
	}
	// malformed: every proper prefix of a small valid document, and literal non-causes
	scen = append(scen, runSpecs("cause/malformed", func(yield func(causeSpec) bool) {
		for p := 0; p < len(smallDoc); p++ {
			if !yield(causeSpec{Malformed: "trunc", Pos: p}) {
				return
			}
		}
		for i := range literalDocs {
			if !yield(causeSpec{Malformed: "literal", Pos: i}) {
				return
			}
		}
	}))
	// the untruncated small document itself must be acceptable to the checker (sanity of the generator)
	return scen
}

func docOf(s causeSpec, sc strCache) []byte {
	switch s.Malformed {
	case "trunc":
		return []byte(smallDoc[:s.Pos])
	case "literal":
		return []byte(literalDocs[s.Pos])
	}
	return buildDoc(s, sc)
}
