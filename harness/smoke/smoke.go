// Package smoke is a development aid: one healthy scenario on the full stack.
package smoke

import (
	"fmt"
	"os"
	"strconv"

	"go.amzn.com/verifh/hx"
	"go.amzn.com/verifh/stack"
	"go.amzn.com/verifrt/sched"
	"go.amzn.com/verifrt/vchan"
	"go.amzn.com/verifrt/vsync"
)

func init() {
	hx.Register(&hx.Property{ID: "S00", Scenarios: func(tier string) []hx.Scenario {
		var out []hx.Scenario
		for next := 0; next <= 2; next++ {
			next := next
			name := fmt.Sprintf("healthy/ext=%d", next)
			out = append(out, hx.Scenario{Name: name, Run: func(c *hx.Ctx) *hx.ScenarioResult {
				cfg := &stack.Config{TimeoutSec: 3, Runtime: stack.EchoRuntime(nil)}
				for i := 0; i < next; i++ {
					cfg.Exts = append(cfg.Exts, stack.ExtSpec{Name: fmt.Sprintf("e%d", i), Body: stack.LoopExt([]string{"INVOKE", "SHUTDOWN"}, false)})
				}
				cleanup := cfg.Prepare()
				defer cleanup()
				b, _ := strconv.Atoi(os.Getenv("SMOKE_BOUND"))
				body := func() {
					w := stack.NewWorld(cfg)
					w.Invoke([]byte(`{"a":1}`), nil)
					w.Invoke([]byte(`{"a":2}`), nil)
					sched.Finish()
				}
				judge := func(e *sched.Exec) (string, string, *sched.Failure) {
					w := stack.WorldOf(e)
					if e.Crash != nil {
						return "crash", "", &sched.Failure{Clause: "x", Sig: "crash", Msg: e.Crash.Value + "\n" + e.Crash.Stack}
					}
					if e.Status() != sched.Finished {
						return e.Status().String(), "", &sched.Failure{Clause: "x", Sig: "hang", Msg: fmt.Sprint(e.Blocked) + "\n" + w.Render(false)}
					}
					out := ""
					for _, i := range w.Invokes {
						out += fmt.Sprintf("%d:%s;", i.Status, i.Body)
					}
					var f *sched.Failure
					if out != `200:{"a":1};200:{"a":2};` {
						f = &sched.Failure{Clause: "x", Sig: "wrong", Msg: out + "\n" + w.Render(false)}
					}
					return out, w.Render(false), f
				}
				return hx.ExploreScenario(c, "S00", name, sched.Options{Bound: b, MaxSteps: 100000, BoundAll: true}, body, judge)
			}})
		}
		return out
	}})
}

func init() {
	hx.Register(&hx.Property{ID: "S01", Scenarios: func(tier string) []hx.Scenario {
		return []hx.Scenario{{Name: "hb-litmus", Run: func(c *hx.Ctx) *hx.ScenarioResult {
			var res string
			body := func() {
				ch := make(chan int)
				var mu vsync.Mutex
				var a1, a2, b1, b2 sched.Stamp
				ta := sched.Go("A", func() {
					a1 = sched.StampNow()
					vchan.Send(ch, 1)
					mu.Lock()
					a2 = sched.StampNow()
					mu.Unlock()
				})
				tb := sched.Go("B", func() {
					b1 = sched.StampNow()
					vchan.Recv(ch)
					b2 = sched.StampNow()
				})
				sched.Join(ta)
				sched.Join(tb)
				r := sched.StampNow()
				res = fmt.Sprintf("a1->b2=%v b1->a2=%v a1->b1=%v a2->r=%v b2->r=%v r->a1=%v | a1=%v a2=%v b1=%v b2=%v r=%v", sched.HB(a1, b2), sched.HB(b1, a2), sched.HB(a1, b1), sched.HB(a2, r), sched.HB(b2, r), sched.HB(r, a1), a1, a2, b1, b2, r)
				sched.Finish()
			}
			return hx.ExploreScenario(c, "S01", "hb-litmus", sched.Options{Bound: 3}, body, func(e *sched.Exec) (string, string, *sched.Failure) { return res, res, nil })
		}}}
	}})
}
