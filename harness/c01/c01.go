// Package c01 decides property C01: the invocation round trip is byte-exact and yields exactly one
// outcome, for every invocation in a sequence, whatever sizes, contents and failures came before.
// Bounded-exhaustive enumeration of histories over (invocation kind x event shape x response shape x
// client-context variant) on the full closed system under the default schedule.
package c01

import (
	"bytes"
	"encoding/base64"
	"fmt"
	"strconv"
	"strings"
	"time"

	"go.amzn.com/lambda/interop"
	"go.amzn.com/verifh/hx"
	"go.amzn.com/verifh/stack"
	"go.amzn.com/verifrt/sched"
	"go.amzn.com/verifrt/vtime"
)

const timeoutSec = 3
const limit = interop.MaxPayloadSize

// shape builds a byte string of a class; position-dependent contents make any stale-buffer, offset
// or truncation error visible.
func shape(name string, tag int) []byte {
	pattern := func(n int) []byte {
		b := make([]byte, n)
		for i := range b {
			b[i] = byte((i*7 + i/251 + tag*13) % 256)
		}
		return b
	}
	switch name {
	case "empty":
		return []byte{}
	case "nul":
		return []byte{0}
	case "a":
		return []byte(fmt.Sprintf("a%d", tag))
	case "badutf8":
		return []byte{0xff, 0xfe, 0x00, byte(tag)}
	case "64k":
		return pattern(64 * 1024)
	case "limit-1":
		return pattern(limit - 1)
	case "limit":
		return pattern(limit)
	case "limit+1":
		return pattern(limit + 1)
	case "1MiB":
		return pattern(1 << 20)
	}
	panic("shape " + name)
}

type step struct {
	Kind  string // ok | fnerror | timeout | crash | oversize-response
	Event string // shape of the event
	Resp  string // shape of the response / error body
	Ctx   string // absent | json | binary | invalid
	// InitMs (first step only): every runtime generation of this history sleeps this long before its first
	// next, so invocations arrive while the environment is still initialising
	InitMs int
}

func (s step) String() string {
	if s.InitMs > 0 {
		return fmt.Sprintf("%s(ev=%s,resp=%s,ctx=%s,init=%dms)", s.Kind, s.Event, s.Resp, s.Ctx, s.InitMs)
	}
	return fmt.Sprintf("%s(ev=%s,resp=%s,ctx=%s)", s.Kind, s.Event, s.Resp, s.Ctx)
}

type history []step

func (h history) name() string {
	var p []string
	for _, s := range h {
		p = append(p, s.String())
	}
	return strings.Join(p, " -> ")
}

type posted struct {
	id   string
	body []byte
	kind string
}

type rec struct {
	posted []posted
}

func ctxHeader(v string, tag int) (hdr string, decoded string, ok bool) {
	switch v {
	case "json":
		d := fmt.Sprintf(`{"custom":{"k":"v%d"}}`, tag)
		return base64.StdEncoding.EncodeToString([]byte(d)), d, true
	case "binary":
		d := string([]byte{0x01, 0x02, 0xff, byte(tag)})
		return base64.StdEncoding.EncodeToString([]byte(d)), d, true
	case "invalid":
		return "***not-base64***", "", false
	}
	return "", "", true
}

// initErrorBody is the error document the runtime of step i posts to /init/error.
func initErrorBody(i int) []byte {
	return []byte(fmt.Sprintf(`{"errorMessage":"init of step %d blew up","errorType":"Function.InitBoom","marker":"INIT-ERROR-BODY-%d"}`, i, i))
}

func body(h history) (func(), *stack.Config) {
	cfg := &stack.Config{TimeoutSec: timeoutSec}
	return func() {
		r := &rec{}
		sched.Cur().Values["rec"] = r
		delivered := 0 // invocations delivered to any runtime generation so far
		cfg.Runtime = func(rt *stack.Actor) {
			if h[0].InitMs > 0 {
				rt.Sleep(time.Duration(h[0].InitMs) * time.Millisecond)
			}
			for {
				// the process dies while the event of a "crash-delivery" step is being sent to it
				up, seenUp := -1, 0
				for i, st := range h {
					if st.Ctx == "invalid" {
						continue
					}
					if seenUp == delivered {
						up = i
						break
					}
					seenUp++
				}
				if up >= 0 && h[up].Kind == "initerror" {
					// the runtime reports an initialisation error (with its own body) and dies before it ever polls
					delivered++
					rt.InitError("Function.InitBoom", initErrorBody(up))
					rt.Exit(1)
				}
				if up >= 0 && h[up].Kind == "crash-delivery" {
					rt.FailWriteAfter = 1000
					rt.Next()
					delivered++
					rt.Exit(1)
				}
				n := rt.Next()
				if n.Status != 200 {
					rt.Stall()
				}
				// which history step is this? invocations with an invalid client context never reach the runtime
				k := delivered
				delivered++
				idx, seen := -1, 0
				for i, s := range h {
					if s.Ctx == "invalid" {
						continue
					}
					if seen == k {
						idx = i
						break
					}
					seen++
				}
				if idx < 0 {
					rt.Stall()
				}
				s := h[idx]
				switch s.Kind {
				case "ok":
					b := shape(s.Resp, 100+idx)
					r.posted = append(r.posted, posted{n.ReqID, b, "response"})
					rt.Response(n.ReqID, b)
				case "fnerror":
					b := shape(s.Resp, 100+idx)
					r.posted = append(r.posted, posted{n.ReqID, b, "error"})
					rt.Error(n.ReqID, "Function.Custom", b)
				case "oversize-response":
					b := shape("limit+1", 100+idx)
					r.posted = append(r.posted, posted{n.ReqID, b, "oversize"})
					rt.Response(n.ReqID, b)
				case "timeout":
					rt.Stall()
				case "crash":
					rt.Exit(1)
				}
			}
		}
		w := stack.NewWorld(cfg)
		for i, s := range h {
			hdr := map[string]string{}
			if s.Ctx != "absent" {
				v, _, _ := ctxHeader(s.Ctx, i)
				hdr["X-Amz-Client-Context"] = v
			}
			w.Invoke(shape(s.Event, i), hdr)
		}
		sched.Finish()
	}, cfg
}

const wantARN = "arn:aws:lambda:us-east-1:012345678912:function:test_function"
const timeoutText = "Task timed out after 3.00 seconds"

func judge(h history) sched.Judge {
	return func(e *sched.Exec) (string, string, *sched.Failure) {
		w := stack.WorldOf(e)
		if e.Crash != nil {
			return "crash", e.Crash.Value, &sched.Failure{Clause: "7", Sig: "crash", Msg: "emulator crashed: " + e.Crash.Value + "\n" + e.Crash.Stack}
		}
		if e.Status() != sched.Finished {
			return e.Status().String(), "", &sched.Failure{Clause: "7", Sig: "hang", Msg: "an invocation never got an answer: " + fmt.Sprint(e.Blocked) + "\n" + w.Render(false)}
		}
		r := e.Values["rec"].(*rec)
		var fail *sched.Failure
		failf := func(clause, sig, f string, a ...any) {
			if fail == nil {
				fail = &sched.Failure{Clause: clause, Sig: sig, Msg: fmt.Sprintf(f, a...) + "\n" + w.Render(false)}
			}
		}
		// deliveries to the runtime, in order
		var nexts []*stack.Call
		var posts []*stack.Call
		for _, c := range w.Calls {
			if c.Kind == "next" && c.Answered >= 0 && c.Status == 200 {
				nexts = append(nexts, c)
			}
			if (c.Kind == "response" || c.Kind == "error") && c.Answered >= 0 {
				posts = append(posts, c)
			}
		}
		ids := map[string]bool{}
		ni := 0
		var outs []string
		for i, s := range h {
			inv := w.Invokes[i]
			ev := shape(s.Event, i)
			if s.Ctx == "invalid" {
				// the front end refuses the request itself; nothing may reach the runtime
				if inv.Status != 500 {
					failf("3", "invalid-context-accepted", "invocation %d with an undecodable client context got status %d", i, inv.Status)
				}
				outs = append(outs, "refused500")
				continue
			}
			if s.Kind == "initerror" {
				// never delivered; the caller gets the runtime's own error document, untouched
				if !bytes.Equal(inv.Body, initErrorBody(i)) {
					failf("5", "caller-bytes:initerror", "invocation %d: the runtime reported %q to /init/error and exited; the caller got status %d body %q", i, initErrorBody(i), inv.Status, trunc(inv.Body))
				}
				outs = append(outs, "initerror")
				continue
			}
			// nobody else's error document
			for j, o := range h {
				if o.Kind == "initerror" && j != i && bytes.Contains(inv.Body, []byte(fmt.Sprintf("INIT-ERROR-BODY-%d", j))) {
					failf("5", "foreign-init-error-body", "invocation %d received the init error document that the runtime of invocation %d had posted", i, j)
				}
			}
			if ni >= len(nexts) {
				failf("1", "not-delivered", "invocation %d (%s) was never delivered to the runtime", i, s)
				break
			}
			n := nexts[ni]
			ni++
			want := ev
			if len(want) > limit {
				want = want[:limit]
			}
			// (1) byte-exact event (a delivery that broke off shows a prefix)
			if s.Kind == "crash-delivery" {
				if len(n.Body) > len(want) || !bytes.Equal(n.Body, want[:len(n.Body)]) {
					failf("1", "event-bytes:"+s.Event, "invocation %d: the part of the event sent before the connection broke is not a prefix of the event", i)
				}
			} else if !bytes.Equal(n.Body, want) {
				failf("1", "event-bytes:"+s.Event, "invocation %d: runtime received %d bytes, caller posted %d bytes (first difference at %d)", i, len(n.Body), len(want), firstDiff(n.Body, want))
			}
			// (2) fresh request id
			if n.ReqID == "" || ids[n.ReqID] {
				failf("2", "request-id", "invocation %d: request id %q empty or reused", i, n.ReqID)
			}
			ids[n.ReqID] = true
			// (3) ARN and client context
			if got := n.Header.Get("Lambda-Runtime-Invoked-Function-Arn"); got != wantARN {
				failf("3", "arn", "invocation %d: ARN header %q", i, got)
			}
			_, dec, _ := ctxHeader(s.Ctx, i)
			if got := n.Header.Get("Lambda-Runtime-Client-Context"); got != dec {
				failf("3", "client-context:"+s.Ctx, "invocation %d: client context header %q, decoded value is %q", i, got, dec)
			}
			// (4) deadline = arrival + timeout (virtual clock; under the default schedule no time passes
			// between arrival and reservation)
			dl, _ := strconv.ParseInt(n.Header.Get("Lambda-Runtime-Deadline-Ms"), 10, 64)
			wantDl := (vtime.BaseEpochNs+inv.IssuedNs)/1e6 + timeoutSec*1000
			if dl != wantDl {
				failf("4", "deadline", "invocation %d: deadline %d ms, arrival + timeout = %d ms", i, dl, wantDl)
			}
			// (5)-(7) outcome
			switch s.Kind {
			case "ok", "fnerror":
				var p *posted
				for k := range r.posted {
					if r.posted[k].id == n.ReqID {
						p = &r.posted[k]
					}
				}
				if p == nil {
					failf("5", "no-post", "invocation %d: the runtime did not post", i)
					break
				}
				if inv.Status != 200 || !bytes.Equal(inv.Body, p.body) {
					failf("5", "caller-bytes:"+s.Kind+":"+s.Resp, "invocation %d: caller got status %d and %d bytes, runtime posted %d bytes for that id (first difference at %d)", i, inv.Status, len(inv.Body), len(p.body), firstDiff(inv.Body, p.body))
				}
				for _, pc := range posts {
					if pc.ReqID == n.ReqID {
						if pc.Status != 202 {
							failf("6", "post-status:"+s.Kind, "invocation %d: runtime's %s got status %d", i, pc.Kind, pc.Status)
						}
						if !sched.HB(pc.IssuedAt, inv.AnsAt) {
							failf("7", "answer-before-post", "invocation %d was answered before the runtime posted", i)
						}
					}
				}
				outs = append(outs, s.Kind)
			case "oversize-response":
				if !strings.Contains(string(inv.Body), "Function.ResponseSizeTooLarge") {
					failf("7", "oversize-outcome", "invocation %d (oversized response): caller got status %d body %q", i, inv.Status, trunc(inv.Body))
				}
				outs = append(outs, "oversize")
			case "timeout":
				if string(inv.Body) != timeoutText {
					failf("7", "timeout-outcome", "invocation %d (runtime stalls): caller got status %d body %q", i, inv.Status, trunc(inv.Body))
				}
				outs = append(outs, "timeout")
			case "crash", "crash-delivery":
				if inv.Status != 502 {
					failf("7", "crash-outcome", "invocation %d (runtime exits): caller got status %d body %q", i, inv.Status, trunc(inv.Body))
				}
				outs = append(outs, "crash502")
			}
			// nobody else got this body: bodies carry per-invocation tags, so equality with another
			// caller's answer would show here
			for j := range h {
				if j != i && len(inv.Body) > 8 && bytes.Equal(w.Invokes[j].Body, inv.Body) && h[j].Kind == "ok" && s.Kind == "ok" {
					failf("5", "body-shared", "invocations %d and %d received the same body", i, j)
				}
			}
		}
		if ni != len(nexts) {
			failf("7", "extra-delivery", "%d deliveries to the runtime for %d dispatched invocations", len(nexts), ni)
		}
		return strings.Join(outs, ","), strings.Join(outs, ",") + fmt.Sprint(len(w.Calls)), fail
	}
}

func firstDiff(a, b []byte) int {
	for i := 0; i < len(a) && i < len(b); i++ {
		if a[i] != b[i] {
			return i
		}
	}
	if len(a) != len(b) {
		if len(a) < len(b) {
			return len(a)
		}
		return len(b)
	}
	return -1
}

func trunc(b []byte) string {
	if len(b) > 120 {
		return string(b[:120]) + "..."
	}
	return string(b)
}

func init() {
	hx.Register(&hx.Property{ID: "C01", Scenarios: func(tier string) []hx.Scenario {
		shapesQ := []string{"empty", "nul", "a", "badutf8", "64k", "limit"}
		shapesT := []string{"empty", "nul", "a", "badutf8", "64k", "limit-1", "limit", "1MiB"}
		shapes := shapesQ
		if tier == "thorough" {
			shapes = shapesT
		}
		ctxs := []string{"absent", "json", "binary"}
		// first steps: every kind x a representative set of shapes
		var firsts []step
		for i, ev := range shapes {
			firsts = append(firsts, step{"ok", ev, shapes[(i+2)%len(shapes)], ctxs[i%3], 0})
			firsts = append(firsts, step{"fnerror", ev, shapes[(i+1)%len(shapes)], ctxs[(i+1)%3], 0})
		}
		firsts = append(firsts, step{"timeout", "64k", "a", "absent", 0}, step{"crash", "limit", "a", "json", 0}, step{"oversize-response", "a", "limit+1", "absent", 0},
			step{"ok", "a", "a", "invalid", 0}, step{"timeout", "limit", "a", "binary", 0}, step{"crash", "empty", "a", "absent", 0},
			// invocations that arrive while the environment initialises (deadline = arrival + timeout all the same)
			step{"ok", "a", "a", "absent", 800}, step{"fnerror", "64k", "a", "json", 800}, step{"crash", "a", "a", "binary", 800},
			// the runtime dies while a large event is being sent to it
			step{"crash-delivery", "limit", "a", "absent", 0}, step{"crash-delivery", "64k", "a", "json", 0},
			// the runtime reports an init error and exits: its document goes to that caller and to nobody after it
			step{"initerror", "a", "a", "absent", 0})
		var out []hx.Scenario
		for _, f := range firsts {
			f := f
			name := "history-prefix " + f.String()
			out = append(out, hx.Scenario{Name: name, Run: func(c *hx.Ctx) *hx.ScenarioResult {
				// all second steps (ok with every event shape), and a third step that goes back to a small payload
				res := &hx.ScenarioResult{Name: name, Exhaustive: true, Outcomes: map[string]int64{}}
				k := 0
				for si, ev := range shapes {
					kinds2 := []string{"ok", "fnerror"}
					if f.Kind == "initerror" && si == 2 {
						kinds2 = append(kinds2, "crash") // a later invocation that fails without posting anything
					}
					for _, kind2 := range kinds2 {
						if kind2 == "fnerror" && si%2 == 1 {
							continue
						}
						h := history{f, step{kind2, ev, shapes[(si+3)%len(shapes)], ctxs[(si+k)%3], 0}, step{"ok", "a", "nul", "json", 0}}
						k++
						if c.Replay != nil && fmt.Sprint(c.Replay.Input) != h.name() {
							continue
						}
						b, cfg := body(h)
						cleanup := cfg.Prepare()
						sub := hx.ExploreScenario(c, "C01", h.name(), sched.Options{Bound: 0, MaxSteps: 100000, BoundAll: true}, b, judge(h))
						cleanup()
						merge(res, sub, h.name())
						if c.Replay != nil {
							return sub
						}
					}
				}
				return res
			}})
		}
		return out
	}})
}

func merge(dst, src *hx.ScenarioResult, name string) {
	dst.Execs += src.Execs
	dst.Evaluations += src.Execs
	dst.States += src.States
	dst.Transitions += src.Transitions
	dst.Pruned += src.Pruned
	if !src.Exhaustive {
		dst.Exhaustive = false
		dst.CapHit = src.CapHit
	}
	for k, v := range src.Outcomes {
		dst.Outcomes[name+" => "+k] += v
	}
	dst.Distinct = int64(len(dst.Outcomes))
	if len(dst.Samples) < 2 {
		dst.Samples = append(dst.Samples, map[string]any{"history": name})
	}
	for _, v := range src.Violations {
		v.Scenario = dst.Name
		v.Input = name
		dst.Violations = append(dst.Violations, v)
	}
	dst.WallS += src.WallS
}
