// Package ehook carries the entry points of package main (cmd/aws-lambda-rie) to the harnesses.
package ehook

import (
	"net/http"

	"go.amzn.com/lambda/interop"
)

// Sandbox is cmd/aws-lambda-rie's Sandbox interface.
type Sandbox interface {
	Init(i *interop.Init, invokeTimeoutMs int64)
	Invoke(responseWriter http.ResponseWriter, invoke *interop.Invoke) error
}

var (
	InvokeHandler      func(w http.ResponseWriter, r *http.Request, sb Sandbox, bs interop.Bootstrap)
	NewSimpleBootstrap func(cmd []string, cwd string) interop.Bootstrap
	ResetInitDone      func()
)
