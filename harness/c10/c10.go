// Package c10 decides property C10: at most one invocation in flight; extra callers are refused
// harmlessly (immediately, with a client error) and never crash the emulator.
package c10

import (
	"fmt"
	"strings"
	"time"

	"go.amzn.com/verifh/hx"
	"go.amzn.com/verifh/stack"
	"go.amzn.com/verifrt/sched"
	"go.amzn.com/verifrt/vtime"
)

const timeoutSec = 3

type scen struct {
	rt     string // fast | slow | stall1 (stalls in generation 1 only)
	ext    bool   // one INVOKE-subscribed extension that dawdles 500ms before polling again
	delays []int  // arrival delay (virtual ms) of the extra callers
	bound  int
}

func (s scen) name() string {
	d := []string{}
	for _, x := range s.delays {
		d = append(d, fmt.Sprint(x))
	}
	return fmt.Sprintf("rt=%s/ext=%v/extra-callers-at-ms=%s/B=%d", s.rt, s.ext, strings.Join(d, "+"), s.bound)
}

func payload(i int) []byte {
	return []byte(fmt.Sprintf(`{"caller":%d,"pad":"%s"}`, i, strings.Repeat("x", i+1)))
}

func (s scen) config() *stack.Config {
	cfg := &stack.Config{TimeoutSec: timeoutSec}
	if s.rt == "stall1-ignoreterm" {
		cfg.RuntimeOnTerm = "ignore"
	}
	cfg.Runtime = func(rt *stack.Actor) {
		for {
			n := rt.Next()
			if n.Status != 200 {
				rt.Stall()
			}
			switch {
			case s.rt == "slow":
				rt.Sleep(1000 * time.Millisecond)
			case strings.HasPrefix(s.rt, "stall1") && rt.Gen == 1:
				rt.Stall()
			}
			if r := rt.Response(n.ReqID, n.Body); r.Status != 202 {
				rt.Stall()
			}
		}
	}
	if s.ext {
		cfg.Exts = []stack.ExtSpec{{Name: "slowext", Body: func(x *stack.Actor) {
			if r := x.Register([]string{"INVOKE", "SHUTDOWN"}, ""); r.Status != 200 {
				x.Stall()
			}
			for {
				ev := x.ExtNext()
				if ev.Status != 200 {
					x.Stall()
				}
				if stack.EventType(ev) == "SHUTDOWN" {
					x.Exit(0)
				}
				x.Sleep(500 * time.Millisecond)
			}
		}}}
	}
	return cfg
}

func (s scen) body(cfg *stack.Config) func() {
	return func() {
		w := stack.NewWorld(cfg)
		var ths []*sched.Thread
		aDone := false
		ths = append(ths, sched.Go("callerA", func() { w.Invoke(payload(0), nil); aDone = true }))
		for i, d := range s.delays {
			i, d := i, d
			ths = append(ths, sched.Go(fmt.Sprintf("caller%c", 'B'+i), func() {
				if d > 0 {
					vtime.Sleep(time.Duration(d) * time.Millisecond)
				}
				if d < 0 {
					// every phase of the first invocation: arrive right after its k-th actor-visible event
					base := w.Milestone
					k := sched.Choose(18, "arrive-after-milestone")
					sched.Block("await-milestone", nil, func() bool { return w.Milestone >= base+k || aDone })
				}
				w.Invoke(payload(i+1), nil)
			}))
		}
		for _, t := range ths {
			sched.Join(t)
		}
		// a following sequential invocation must be served normally
		sched.Region(false)
		w.Invoke(payload(9), nil)
		sched.Finish()
	}
}

const timeoutText = "Task timed out after 3.00 seconds"

func (s scen) judge(e *sched.Exec) (string, string, *sched.Failure) {
	w := stack.WorldOf(e)
	if e.Crash != nil {
		return stack.CrashFailure(e, "1")
	}
	if e.Status() != sched.Finished {
		return e.Status().String(), "", &sched.Failure{Clause: "3", Sig: "hang", Msg: "a caller never got an answer (" + e.Status().String() + ") blocked=" + fmt.Sprint(e.Blocked) + "\n" + w.Render(false)}
	}
	var out []string
	var fail *sched.Failure
	failf := func(clause, sig, f string, a ...any) {
		if fail == nil {
			fail = &sched.Failure{Clause: clause, Sig: sig, Msg: fmt.Sprintf(f, a...) + "\n" + w.Render(false)}
		}
	}
	// the teardown window of the first environment on the virtual clock: from the first signal to the last exit
	// of a process that was started before it
	var t0, tEnd int64 = -1, -1
	started := map[int]bool{}
	for _, k := range w.K.Log {
		switch k.Kind {
		case "exec":
			if t0 < 0 {
				started[k.Pid] = true
			}
		case "signal":
			if t0 < 0 {
				t0 = k.TimeNs
			}
		case "exit":
			if t0 >= 0 && started[k.Pid] && k.TimeNs > tEnd {
				tEnd = k.TimeNs
			}
		}
	}
	served := map[string]bool{}
	for _, inv := range w.Invokes {
		class := "other"
		switch {
		case inv.Aborted:
			class = "aborted"
		case inv.Status == 400:
			class = "refused"
			if inv.AnsNs != inv.IssuedNs {
				failf("3", "late-refusal", "caller %d was refused after %d ms, not immediately", inv.Idx, (inv.AnsNs-inv.IssuedNs)/1e6)
			}
		case inv.Status == 200 && string(inv.Body) == string(inv.Payload):
			class = "served"
			served[string(inv.Payload)] = true
		case inv.Status == 200 && string(inv.Body) == timeoutText && inv.AnsNs-inv.IssuedNs >= int64(timeoutSec)*1e9:
			class = "timeout"
		}
		out = append(out, class)
		if t0 >= 0 && inv.IssuedNs > t0 && inv.IssuedNs < tEnd && class != "refused" {
			failf("3", "admitted-during-reset:"+class, "caller %d arrived at %d ms while the reset of the timed-out invocation was tearing the environment down (%d..%d ms) and was not refused: status %d body %q", inv.Idx, inv.IssuedNs/1e6, t0/1e6, tEnd/1e6, inv.Status, trunc(inv.Body))
		}
		if class == "other" || class == "aborted" {
			failf("3", fmt.Sprintf("bad-outcome:status=%d:body=%s", inv.Status, bodyClass(w, inv)), "caller %d (payload %s) got status %d body %q: neither an immediate refusal nor service of its own payload", inv.Idx, inv.Payload, inv.Status, trunc(inv.Body))
		}
		if inv.Idx == len(w.Invokes)-1 && class != "served" {
			failf("5", "followup-"+class, "the sequential follow-up invocation was not served normally: status %d body %q", inv.Status, trunc(inv.Body))
		}
	}
	// (4) the extra callers do not take the service away from everybody: of the callers racing for the
	// free environment at least one is admitted
	admitted := 0
	for i, c := range out {
		if i < len(out)-1 && c != "refused" {
			admitted++
		}
	}
	if admitted == 0 {
		failf("4", "all-refused", "every concurrent caller was refused although the environment was free")
	}
	// (2) the runtime only ever receives payloads of admitted callers, each at most once per generation
	seen := map[string]int{}
	for _, c := range w.Calls {
		if c.Kind == "next" && c.Answered >= 0 && c.Status == 200 {
			seen[string(c.Body)]++
		}
	}
	for p, n := range seen {
		if n > 1 && !strings.HasPrefix(s.rt, "stall1") {
			failf("2", "delivered-twice", "payload %s was delivered to the runtime %d times", p, n)
		}
	}
	o := strings.Join(out, ",")
	return o, w.Render(false), fail
}

func bodyClass(w *stack.World, inv *stack.Invoke) string {
	b := string(inv.Body)
	switch {
	case b == "":
		return "empty"
	case b == timeoutText:
		return "timeout-text"
	case strings.Contains(b, "errorType"):
		return "error-json"
	}
	for _, o := range w.Invokes {
		if o != inv && b == string(o.Payload) {
			return "other-callers-payload"
		}
	}
	return "unknown"
}

func trunc(b []byte) string {
	if len(b) > 100 {
		return string(b[:100]) + "..."
	}
	return string(b)
}

func firstLines(s string, n int) string {
	l := strings.Split(s, "\n")
	if len(l) > n {
		l = l[:n]
	}
	return strings.Join(l, "\n")
}

// crashSite extracts the first repository frame of a panic stack (stable call-site signature).
func crashSite(stack string) string {
	for _, l := range strings.Split(stack, "\n") {
		l = strings.TrimSpace(l)
		if strings.HasPrefix(l, "go.amzn.com/lambda/") || strings.HasPrefix(l, "go.amzn.com/cmd/") {
			if i := strings.Index(l, "("); i > 0 {
				// keep "pkg.(*T).Method" without arguments
				j := strings.LastIndex(l, "(")
				if j > 0 {
					l = l[:j]
				}
			}
			return strings.TrimPrefix(l, "go.amzn.com/")
		}
	}
	return "unknown"
}

func init() {
	hx.Register(&hx.Property{ID: "C10", Scenarios: func(tier string) []hx.Scenario {
		var ss []scen
		for _, rt := range []string{"fast", "slow", "stall1"} {
			for _, ext := range []bool{false, true} {
				for _, d := range []int{0, 500, 1200, 2999, 3000, 3050} {
					if rt == "fast" && !ext && d > 0 && d != 3000 {
						continue
					}
					b := 1
					if tier == "thorough" {
						b = 2
					}
					ss = append(ss, scen{rt: rt, ext: ext, delays: []int{d}, bound: b})
				}
				// two extra callers
				b := 1
				if tier == "thorough" {
					b = 2
				}
				ss = append(ss, scen{rt: rt, ext: ext, delays: []int{0, 0}, bound: b})
				ss = append(ss, scen{rt: rt, ext: ext, delays: []int{500, 3000}, bound: b})
				ss = append(ss, scen{rt: rt, ext: ext, delays: []int{-1}, bound: 1})
			}
		}
		// a teardown that takes virtual time (runtime ignores SIGTERM, killed after 30% of 2 s): callers arriving
		// inside it must be refused
		for _, d := range []int{3001, 3300, 3599, 3600} {
			ss = append(ss, scen{rt: "stall1-ignoreterm", ext: true, delays: []int{d}, bound: 1})
		}
		ss = append(ss, scen{rt: "stall1-ignoreterm", ext: true, delays: []int{3100, 3500}, bound: 1})
		if tier == "quick" {
			// a few deeper ones on the smallest configuration
			ss = append(ss, scen{rt: "fast", ext: false, delays: []int{0}, bound: 2})
		}
		var out []hx.Scenario
		for _, s := range ss {
			s := s
			out = append(out, hx.Scenario{Name: s.name(), Run: func(c *hx.Ctx) *hx.ScenarioResult {
				cfg := s.config()
				cleanup := cfg.Prepare()
				defer cleanup()
				return hx.ExploreScenario(c, "C10", s.name(), sched.Options{Bound: s.bound, MaxSteps: 60000, BoundAll: true, NoEarlyClock: true, HoldBack: true}, s.body(cfg), s.judge)
			}})
		}
		return out
	}})
}
