// Package hx is the common frame of all property harnesses: scenario registry, worker entry point,
// result records.
package hx

import (
	"encoding/json"
	"flag"
	"fmt"
	"io"
	"os"
	"sort"
	"strings"
	"time"

	"go.amzn.com/verifrt/sched"
)

// ViolationRec is a violation as written to the worker result (and to replay files).
type ViolationRec struct {
	Property string   `json:"property"`
	Scenario string   `json:"scenario"`
	Clause   string   `json:"clause"`
	Msg      string   `json:"msg"`
	Sig      string   `json:"sig"`
	Choices  []int    `json:"choices,omitempty"`
	Input    any      `json:"input,omitempty"`
	Log      []string `json:"log,omitempty"`
	Crash    string   `json:"crash,omitempty"`
	Digest   string   `json:"digest,omitempty"`
	// RacySites: the racy accesses that were scheduling points when Choices were recorded
	RacySites []string `json:"racy_sites,omitempty"`
}

// ScenarioResult is what one scenario contributes to the evidence.
type ScenarioResult struct {
	Name        string           `json:"name"`
	Execs       int64            `json:"execs"`
	Pruned      int64            `json:"pruned"`
	States      int64            `json:"states"`
	Transitions int64            `json:"transitions"`
	Evaluations int64            `json:"evaluations"`
	Distinct    int64            `json:"distinct"`
	Bound       int              `json:"bound"`
	Exhaustive  bool             `json:"exhaustive"`
	CapHit      string           `json:"cap_hit,omitempty"`
	Outcomes    map[string]int64 `json:"outcomes,omitempty"`
	MaxDepth    int              `json:"max_depth"`
	Samples     []any            `json:"samples,omitempty"`
	Violations  []ViolationRec   `json:"violations,omitempty"`
	WallS       float64          `json:"wall_s"`
	RacyRounds  int              `json:"racy_rounds,omitempty"`   // searches repeated because new racing accesses were found
	RacyFound   []string         `json:"racy_found,omitempty"`    // racing accesses found that are not in racy_sites.txt
	Races       []sched.RaceRec  `json:"races,omitempty"`         // race build only
	RaceAcc     int64            `json:"race_accesses,omitempty"` // race build only
}

// Ctx is handed to a scenario when it runs.
type Ctx struct {
	Tier     string
	Deadline time.Time
	Replay   *ViolationRec // non-nil: replay exactly this violation, with a step log
	Out      io.Writer
}

// Scenario is one unit of exploration (also the unit of sharding).
type Scenario struct {
	Name string
	Run  func(c *Ctx) *ScenarioResult
}

// Property is a registered check.
type Property struct {
	ID        string
	Scenarios func(tier string) []Scenario
}

var registry = map[string]*Property{}

func Register(p *Property) { registry[p.ID] = p }

// FromStats converts exploration statistics into a scenario result.
func FromStats(prop, name string, bound int, st *sched.Stats) *ScenarioResult {
	r := &ScenarioResult{Name: name, Execs: st.Execs, Pruned: st.Pruned, States: st.States, Transitions: st.Transitions,
		Bound: bound, Exhaustive: st.Exhaustive, CapHit: st.CapHit, Outcomes: st.Outcomes, MaxDepth: st.MaxDepth}
	r.Evaluations = st.Execs
	r.Distinct = int64(len(st.Outcomes))
	for _, c := range st.SampleChoices {
		r.Samples = append(r.Samples, map[string]any{"scenario": name, "schedule": sched.RenderChoices(c)})
		if len(r.Samples) >= 2 {
			break
		}
	}
	for _, v := range st.Violations {
		rec := ViolationRec{Property: prop, Scenario: name, Clause: v.Clause, Msg: v.Msg, Sig: v.Sig, Choices: v.Choices, Log: v.Log, Digest: v.Digest, RacySites: v.RacySites}
		if v.Crash != nil {
			rec.Crash = v.Crash.Value + "\n" + v.Crash.Stack
		}
		r.Violations = append(r.Violations, rec)
	}
	return r
}

// ExploreScenario is the usual body of Scenario.Run for schedule explorations.
func ExploreScenario(c *Ctx, prop, name string, opt sched.Options, body func(), judge sched.Judge) *ScenarioResult {
	t0 := time.Now()
	if c.Replay != nil {
		sched.BoundAll, sched.NoEarlyClock, sched.HoldBack, sched.HoldLagNs = opt.BoundAll, opt.NoEarlyClock, opt.HoldBack, opt.HoldLagNs
		if c.Replay.RacySites != nil {
			sched.SetRacySites(c.Replay.RacySites)
		}
		e := sched.Replay(c.Replay.Choices, opt.MaxSteps, body)
		outcome, digest, fail := judge(e)
		for _, l := range e.Log {
			fmt.Fprintln(c.Out, l)
		}
		fmt.Fprintf(c.Out, "status=%s outcome=%s digest=%s\n", e.Status(), outcome, digest)
		if e.Crash != nil {
			fmt.Fprintf(c.Out, "CRASH in %s: %s\n%s\n", e.Crash.Name, e.Crash.Value, e.Crash.Stack)
		}
		r := &ScenarioResult{Name: name, Execs: 1, Exhaustive: false}
		if fail != nil {
			fmt.Fprintf(c.Out, "FAIL clause=%s sig=%s: %s\n", fail.Clause, fail.Sig, fail.Msg)
			r.Violations = append(r.Violations, ViolationRec{Property: prop, Scenario: name, Clause: fail.Clause, Msg: fail.Msg, Sig: fail.Sig, Choices: c.Replay.Choices})
		} else {
			fmt.Fprintln(c.Out, "PASS (no clause violated on this schedule)")
		}
		return r
	}
	if os.Getenv("VERIF_TRACE0") != "" {
		e := sched.Replay(nil, opt.MaxSteps, body)
		for _, l := range e.Log {
			fmt.Fprintln(c.Out, l)
		}
		for i, p := range e.Points {
			fmt.Fprintf(c.Out, "D%d n=%d costs=%v %s\n", i, p.N, p.Costs, p.Desc)
		}
		fmt.Fprintf(c.Out, "status=%s blocked=%v\n", e.Status(), e.Blocked)
	}
	opt.Deadline = c.Deadline
	if v := os.Getenv("VERIF_MAXEXECS"); v != "" {
		fmt.Sscanf(v, "%d", &opt.MaxExecs)
	}
	if os.Getenv("VERIF_NOCACHE") != "" {
		opt.NoCache = true
	}
	acc0 := sched.RaceAccesses
	st := sched.Explore(opt, body, judge)
	r := FromStats(prop, name, opt.Bound, st)
	r.Races, r.RaceAcc = sched.DrainRaces(), sched.RaceAccesses-acc0
	r.RacyRounds = st.RacyRounds
	if !sched.RaceBuild {
		r.Races = nil
		for _, k := range sched.ActiveRacySites() {
			if !sched.StaticRacy[k] {
				r.RacyFound = append(r.RacyFound, k)
			}
		}
	}
	r.WallS = time.Since(t0).Seconds()
	return r
}

// WorkerResult is the JSON document a worker writes.
type WorkerResult struct {
	Property  string            `json:"property"`
	Tier      string            `json:"tier"`
	Shard     string            `json:"shard"`
	NScen     int               `json:"n_scenarios_total"`
	Scenarios []*ScenarioResult `json:"scenarios"`
	WallS     float64           `json:"wall_s"`
}

// SavedStdout is the real stdout (the process's stdout is pointed at /dev/null because the emulator
// front end prints START/END/REPORT lines).
var SavedStdout *os.File

// Main is the worker entry point, called from TestMain of the instrumented cmd/aws-lambda-rie.
func Main() {
	prop := flag.String("prop", "", "property id")
	tier := flag.String("tier", "quick", "quick|thorough")
	shard := flag.String("shard", "0/1", "i/n")
	out := flag.String("out", "", "result file")
	replay := flag.String("replay", "", "replay file")
	list := flag.Bool("list", false, "list scenarios")
	only := flag.String("only", "", "run only scenarios whose name contains this")
	budget := flag.Float64("budget", 0, "seconds of wall clock for this worker (0 = unlimited)")
	idxs := flag.String("idx", "", "comma separated scenario indices to run (overrides -shard)")
	flag.Parse()
	SavedStdout = os.Stdout
	devnull, _ := os.OpenFile(os.DevNull, os.O_WRONLY, 0)
	os.Stdout = devnull
	sched.SnapshotGlobals() // package-level variables of the repository, as initialised: every execution starts from them

	if *replay != "" {
		b, err := os.ReadFile(*replay)
		if err != nil {
			fmt.Fprintln(os.Stderr, err)
			os.Exit(2)
		}
		var rec ViolationRec
		if err := json.Unmarshal(b, &rec); err != nil {
			fmt.Fprintln(os.Stderr, err)
			os.Exit(2)
		}
		p := registry[rec.Property]
		if p == nil {
			fmt.Fprintln(os.Stderr, "unknown property", rec.Property)
			os.Exit(2)
		}
		for _, t := range []string{"quick", "thorough"} {
			for _, s := range p.Scenarios(t) {
				if s.Name == rec.Scenario {
					r := s.Run(&Ctx{Tier: t, Replay: &rec, Out: SavedStdout})
					if len(r.Violations) > 0 {
						os.Exit(1)
					}
					os.Exit(0)
				}
			}
		}
		fmt.Fprintln(os.Stderr, "scenario not found:", rec.Scenario)
		os.Exit(2)
	}

	p := registry[*prop]
	if p == nil {
		var ids []string
		for k := range registry {
			ids = append(ids, k)
		}
		sort.Strings(ids)
		fmt.Fprintln(os.Stderr, "unknown property", *prop, "known:", strings.Join(ids, " "))
		os.Exit(2)
	}
	scen := p.Scenarios(*tier)
	if *list {
		for i, s := range scen {
			fmt.Fprintf(SavedStdout, "%d %s\n", i, s.Name)
		}
		return
	}
	var si, sn int
	fmt.Sscanf(*shard, "%d/%d", &si, &sn)
	if sn <= 0 {
		sn = 1
	}
	t0 := time.Now()
	var dl time.Time
	if *budget > 0 {
		dl = t0.Add(time.Duration(*budget * float64(time.Second)))
	}
	wr := &WorkerResult{Property: *prop, Tier: *tier, Shard: *shard, NScen: len(scen)}
	want := map[int]bool{}
	if *idxs != "" {
		for _, f := range strings.Split(*idxs, ",") {
			var k int
			fmt.Sscanf(f, "%d", &k)
			want[k] = true
		}
	}
	for i, s := range scen {
		if *idxs != "" {
			if !want[i] {
				continue
			}
		} else if i%sn != si {
			continue
		}
		if *only != "" && !strings.Contains(s.Name, *only) {
			continue
		}
		if !dl.IsZero() && time.Now().After(dl) {
			wr.Scenarios = append(wr.Scenarios, &ScenarioResult{Name: s.Name, Exhaustive: false, CapHit: "worker budget exhausted before scenario started"})
			continue
		}
		r := s.Run(&Ctx{Tier: *tier, Deadline: dl, Out: SavedStdout})
		r.Name = s.Name
		wr.Scenarios = append(wr.Scenarios, r)
	}
	wr.WallS = time.Since(t0).Seconds()
	b, _ := json.Marshal(wr)
	if *out == "" {
		SavedStdout.Write(b)
		SavedStdout.Write([]byte("\n"))
	} else if err := os.WriteFile(*out, b, 0o644); err != nil {
		fmt.Fprintln(os.Stderr, err)
		os.Exit(2)
	}
}
