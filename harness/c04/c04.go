// Package c04 decides property C04: the invoke barrier and the INVOKE event fan-out are exact.
package c04

import (
	"encoding/json"
	"fmt"
	"strconv"
	"strings"
	"time"

	"go.amzn.com/verifh/hx"
	"go.amzn.com/verifh/stack"
	"go.amzn.com/verifrt/sched"
)

type extCfg struct {
	name   string
	events []string
	slow   bool // dawdles 200 ms before polling again (the "held back" party)
}

type scen struct {
	exts     []extCfg
	internal []string // nil: none; else event list of one internal extension
	rtSlow   bool     // the runtime dawdles between its response and its next poll
	n        int      // consecutive invocations
	bound    int
}

func (s scen) name() string {
	var p []string
	for _, e := range s.exts {
		k := e.name + ":" + strings.Join(e.events, "+")
		if e.slow {
			k += ":slow"
		}
		p = append(p, k)
	}
	in := "none"
	if s.internal != nil {
		in = "int:" + strings.Join(s.internal, "+")
	}
	return fmt.Sprintf("ext=[%s] %s rtSlow=%v invocations=%d B=%d", strings.Join(p, ","), in, s.rtSlow, s.n, s.bound)
}

func has(ev []string, x string) bool {
	for _, e := range ev {
		if e == x {
			return true
		}
	}
	return false
}

func (s scen) config() *stack.Config {
	cfg := &stack.Config{TimeoutSec: 5}
	for _, e := range s.exts {
		e := e
		cfg.Exts = append(cfg.Exts, stack.ExtSpec{Name: e.name, Body: func(x *stack.Actor) {
			if c := x.Register(e.events, ""); c.Status != 200 {
				x.Stall()
			}
			for it := 0; ; it++ {
				if it > 40 {
					x.Stall() // an emulator that answers every next at once must not make the script spin for ever
				}
				ev := x.ExtNext()
				if ev.Status != 200 {
					x.Stall()
				}
				if stack.EventType(ev) == "SHUTDOWN" {
					x.Exit(0)
				}
				if e.slow {
					x.Sleep(200 * time.Millisecond)
				}
			}
		}})
	}
	cfg.Runtime = func(rt *stack.Actor) {
		if s.internal != nil {
			x := &stack.Actor{W: rt.W, P: rt.P, Name: "int:in0", Gen: rt.Gen, Env: rt.Env}
			if c := x.Register(s.internal, ""); c.Status == 200 {
				sched.Go(x.Name, func() {
					defer stack.QuietExit()
					for it := 0; it <= 40; it++ {
						if c := x.ExtNext(); c.Status != 200 {
							return
						}
					}
				})
			}
		}
		for {
			n := rt.Next()
			if n.Status != 200 {
				rt.Stall()
			}
			if c := rt.Response(n.ReqID, n.Body); c.Status != 202 {
				rt.Stall()
			}
			if s.rtSlow {
				rt.Sleep(300 * time.Millisecond)
			}
		}
	}
	return cfg
}

func trace(i int) string { return fmt.Sprintf("Root=1-5759e988-bd862e3fe1be46a99427%04d;Sampled=1", i) }

func (s scen) run(c *hx.Ctx) *hx.ScenarioResult {
	cfg := s.config()
	cleanup := cfg.Prepare()
	defer cleanup()
	body := func() {
		w := stack.NewWorld(cfg)
		for i := 0; i < s.n; i++ {
			w.Invoke([]byte(fmt.Sprintf(`{"n":%d}`, i)), map[string]string{"X-Amzn-Trace-Id": trace(i)})
		}
		sched.Finish()
	}
	return hx.ExploreScenario(c, "C04", s.name(), sched.Options{Bound: s.bound, MaxSteps: 100000, BoundAll: true, NoEarlyClock: true, HoldBack: true}, body, s.judge)
}

type invokeEvent struct {
	EventType          string `json:"eventType"`
	DeadlineMs         int64  `json:"deadlineMs"`
	RequestID          string `json:"requestId"`
	InvokedFunctionArn string `json:"invokedFunctionArn"`
	Tracing            *struct {
		Type  string `json:"type"`
		Value string `json:"value"`
	} `json:"tracing"`
}

func (s scen) judge(e *sched.Exec) (string, string, *sched.Failure) {
	w := stack.WorldOf(e)
	if e.Crash != nil {
		return stack.CrashFailure(e, "2")
	}
	if e.Status() != sched.Finished {
		return e.Status().String(), "", &sched.Failure{Clause: "2", Sig: "hang", Msg: "an invocation never got an answer: " + fmt.Sprint(e.Blocked) + "\n" + w.Render(false)}
	}
	var fail *sched.Failure
	failf := func(clause, sig, f string, a ...any) {
		if fail == nil {
			fail = &sched.Failure{Clause: clause, Sig: sig, Msg: fmt.Sprintf(f, a...) + "\n" + w.Render(false)}
		}
	}
	// per-actor call sequences
	by := map[string][]*stack.Call{}
	for _, c := range w.Calls {
		by[c.Actor] = append(by[c.Actor], c)
	}
	var rtNext []*stack.Call // deliveries to the runtime
	var rtPost []*stack.Call
	for _, c := range by["runtime"] {
		if c.Kind == "next" && c.Answered >= 0 && c.Status == 200 {
			rtNext = append(rtNext, c)
		}
		if c.Kind == "response" {
			rtPost = append(rtPost, c)
		}
	}
	if len(rtNext) != s.n {
		failf("4", "runtime-deliveries", "%d invocations, %d deliveries to the runtime", s.n, len(rtNext))
		return "bad", w.Render(false), fail
	}
	subs := map[string]bool{}
	all := []string{}
	for _, ec := range s.exts {
		all = append(all, "ext:"+ec.name)
		subs["ext:"+ec.name] = has(ec.events, "INVOKE")
	}
	if s.internal != nil {
		all = append(all, "int:in0")
		subs["int:in0"] = has(s.internal, "INVOKE")
	}
	for _, who := range all {
		var evs []*stack.Call
		var polls []*stack.Call
		for _, c := range by[who] {
			if c.Kind == "extnext" {
				polls = append(polls, c)
				if c.Answered >= 0 && c.Status == 200 && stack.EventType(c) == "INVOKE" {
					evs = append(evs, c)
				}
			}
		}
		if !subs[who] {
			if len(evs) != 0 {
				failf("1", "event-to-unsubscribed", "%s is not subscribed to INVOKE but received %d INVOKE events", who, len(evs))
			}
			continue
		}
		// (1) exactly one event per invocation, in order, with matching fields
		if len(evs) != s.n {
			failf("1", "event-count", "%s is subscribed to INVOKE: %d invocations, %d INVOKE events", who, s.n, len(evs))
			continue
		}
		for i, ev := range evs {
			var m invokeEvent
			json.Unmarshal(ev.Body, &m)
			n := rtNext[i]
			if m.RequestID != n.ReqID {
				failf("1", "event-request-id", "%s event %d carries request id %s, the runtime's is %s (order or identity broken)", who, i, m.RequestID, n.ReqID)
			}
			if m.InvokedFunctionArn != n.Header.Get("Lambda-Runtime-Invoked-Function-Arn") {
				failf("1", "event-arn", "%s event %d ARN %q", who, i, m.InvokedFunctionArn)
			}
			dl, _ := strconv.ParseInt(n.Header.Get("Lambda-Runtime-Deadline-Ms"), 10, 64)
			if d := m.DeadlineMs - dl; d < -5 || d > 5 {
				failf("1", "event-deadline", "%s event %d deadline %d, the runtime's %d", who, i, m.DeadlineMs, dl)
			}
			if m.Tracing == nil || m.Tracing.Value != trace(i) {
				failf("1", "event-trace", "%s event %d tracing %+v, caller sent %s", who, i, m.Tracing, trace(i))
			}
			// (2) the caller's answer for invocation i comes after this subscriber asked for next again
			var after *stack.Call
			for k, p := range polls {
				if p == ev && k+1 < len(polls) {
					after = polls[k+1]
				}
			}
			if after == nil || !sched.HB(after.IssuedAt, w.Invokes[i].AnsAt) {
				failf("2", "answered-before-extension-next", "invocation %d was reported complete before %s asked for its next event", i, who)
			}
		}
	}
	for i := 0; i < s.n; i++ {
		inv := w.Invokes[i]
		if inv.Status != 200 || string(inv.Body) != fmt.Sprintf(`{"n":%d}`, i) {
			failf("2", "outcome", "invocation %d ended with status %d body %q", i, inv.Status, string(inv.Body))
		}
		// (2) after the runtime's response and its next poll
		var post *stack.Call
		for _, p := range rtPost {
			if p.ReqID == rtNext[i].ReqID {
				post = p
			}
		}
		if post == nil || !sched.HB(post.IssuedAt, inv.AnsAt) {
			failf("2", "answered-before-response", "invocation %d was reported complete before the runtime posted its response post=%+v ans=%+v", i, post.IssuedAt, inv.AnsAt)
		}
		var again *stack.Call
		seenPost := false
		for _, c := range by["runtime"] {
			if c == post {
				seenPost = true
			} else if seenPost && c.Kind == "next" {
				again = c
				break
			}
		}
		if again == nil || !sched.HB(again.IssuedAt, inv.AnsAt) {
			failf("2", "answered-before-runtime-next", "invocation %d was reported complete before the runtime asked for next", i)
		}
		// (3) nothing of invocation i+1 is delivered before the answer to i
		if i+1 < s.n {
			if !sched.HB(inv.AnsAt, rtNext[i+1].AnsAt) {
				failf("3", "next-delivered-early", "invocation %d was delivered to the runtime before invocation %d was reported complete", i+1, i)
			}
		}
	}
	return "ok", w.Render(false), fail
}

func init() {
	hx.Register(&hx.Property{ID: "C04", Scenarios: func(tier string) []hx.Scenario {
		b := 1
		n := 2
		if tier == "thorough" {
			b, n = 2, 3
		}
		evs := [][]string{{}, {"INVOKE"}, {"SHUTDOWN"}, {"INVOKE", "SHUTDOWN"}}
		var ss []scen
		ss = append(ss, scen{n: n, bound: b}, scen{n: n, bound: b, rtSlow: true})
		for _, a := range evs {
			ss = append(ss, scen{exts: []extCfg{{name: "a", events: a}}, n: n, bound: b})
			ss = append(ss, scen{exts: []extCfg{{name: "a", events: a, slow: true}}, n: n, bound: b, rtSlow: true})
			ss = append(ss, scen{exts: []extCfg{{name: "a", events: a}}, internal: []string{"INVOKE"}, n: n, bound: b})
			for _, bb := range evs {
				ss = append(ss, scen{exts: []extCfg{{name: "a", events: a}, {name: "b", events: bb, slow: true}}, n: n, bound: b})
			}
		}
		ss = append(ss, scen{internal: []string{"INVOKE"}, n: n, bound: b}, scen{internal: []string{}, n: n, bound: b})
		if tier == "thorough" {
			for _, a := range [][]string{{"INVOKE"}, {}} {
				ss = append(ss, scen{exts: []extCfg{{name: "a", events: []string{"INVOKE", "SHUTDOWN"}}, {name: "b", events: a, slow: true}, {name: "c", events: []string{"INVOKE"}}}, internal: []string{"INVOKE"}, n: 3, bound: 1})
			}
		}
		var out []hx.Scenario
		for _, s := range ss {
			s := s
			out = append(out, hx.Scenario{Name: s.name(), Run: s.run})
		}
		return out
	}})
}
