// Package c06 decides property C06: a process exit / crash / launch failure / reported init or exit
// error at any point of the runtime's or an extension's protocol yields a failure status with the right
// body for the pending (or next) invocation, never a hang; the environment is torn down and the
// following invocation is served by new processes.
package c06

import (
	"encoding/json"
	"fmt"
	"strings"

	"go.amzn.com/verifh/faults"
	"go.amzn.com/verifh/hx"
	"go.amzn.com/verifh/stack"
	"go.amzn.com/verifrt/sched"
)

type scen struct {
	faults.Scen
	bound  int
	second int // histories: 1-based index of a second failing invocation (fault More[0]); 0: none
}

func (s scen) name() string { return s.Scen.Name() + fmt.Sprintf(" B=%d", s.bound) }

func (s scen) run(c *hx.Ctx) *hx.ScenarioResult {
	cfg := s.Scen.Config()
	cleanup := cfg.Prepare()
	defer cleanup()
	fi := s.FailingInvocation()
	body := s.Scen.Body(cfg, func(i int) bool { return i == fi || (s.F.Point == "idle" && i == fi-1) })
	return hx.ExploreScenario(c, "C06", s.name(), sched.Options{Bound: s.bound, MaxSteps: 100000, BoundAll: true, NoEarlyClock: true, HoldBack: true}, body, s.judge)
}

// expectation for the failing invocation, straight from the statement
type expect struct {
	body      string // "own-response" | "init-error-payload" | "error-json" | "empty"
	errorType string // for error-json
}

func (s scen) expected() expect { return expectedFor(s.F) }

func expectedFor(f *faults.Fault) expect {
	switch f.Who {
	case "runtime":
		switch f.Point {
		case "launch", "before-next":
			return expect{body: "empty"}
		case "init-error":
			return expect{body: "init-error-payload"}
		case "after-next":
			return expect{body: "error-json", errorType: "Runtime.ExitError"}
		case "after-response":
			return expect{body: "own-response"}
		case "idle":
			return expect{body: "error-json", errorType: "Runtime.ExitError"}
		}
	default:
		switch f.Point {
		case "launch", "before-register", "after-register", "init-error", "exit-error-init":
			return expect{body: "empty"}
		case "exit-error":
			return expect{body: "error-json", errorType: "Extension.ExitError"}
		case "after-event", "idle":
			return expect{body: "error-json", errorType: "Extension.Crash"}
		}
	}
	return expect{body: "?"}
}

// initFaultType names the fault of a scenario whose fault strikes during initialisation.
func (s scen) initFaultType() string {
	f := s.F
	if f.Who == "runtime" {
		if f.Point == "launch" {
			return "Runtime.InvalidEntrypoint"
		}
		return "Runtime.ExitError"
	}
	switch f.Point {
	case "launch":
		return "Extension.LaunchError"
	case "init-error":
		return "Extension.InitError"
	case "exit-error-init":
		return "Extension.ExitError"
	}
	return "Extension.Crash"
}

func (s scen) judge(e *sched.Exec) (string, string, *sched.Failure) {
	w := stack.WorldOf(e)
	if e.Crash != nil {
		return stack.CrashFailure(e, "1")
	}
	if e.Status() != sched.Finished {
		return e.Status().String(), "", &sched.Failure{Clause: "1", Sig: "hang", Msg: "an invocation never got an answer: " + fmt.Sprint(e.Blocked) + "\n" + w.Render(false)}
	}
	var fail *sched.Failure
	failf := func(clause, sig, f string, a ...any) {
		if fail == nil {
			fail = &sched.Failure{Clause: clause, Sig: sig, Msg: fmt.Sprintf(f, a...) + "\n" + w.Render(false)}
		}
	}
	fi := s.FailingInvocation()
	var outs []string
	for i, inv := range w.Invokes {
		echo := string(faults.Echo(i))
		got := classify(inv, echo)
		outs = append(outs, fmt.Sprintf("%d:%s", inv.Status, got))
		exp := s.expected()
		if s.second != 0 && i+1 == s.second {
			exp = expectedFor(s.More[0])
		}
		if i+1 != fi && i+1 != s.second && s.F.Point != "launch" {
			if inv.Status != 200 || string(inv.Body) != echo {
				failf("4", fmt.Sprintf("other-invocation-%s:status=%d:%s", rel(i+1, fi), inv.Status, got), "invocation %d (%s the faulty one) ended with status %d body %q", i+1, rel(i+1, fi), inv.Status, trunc(inv.Body))
			}
			continue
		}
		// (1) failure status
		if inv.Status != 502 {
			failf("1", fmt.Sprintf("not-failure-status:%d:%s", inv.Status, got), "invocation %d (fault %s) got status %d body %q, expected a failure status", i+1, s.F, inv.Status, trunc(inv.Body))
			continue
		}
		// (2) body: the response the runtime had already delivered for that invocation comes first
		delivered := false
		for _, c := range w.Calls {
			// accepted (202), or the handler panicked after the bytes had been handed over (connection dropped)
			if c.Kind == "response" && string(c.Sent) == echo && ((c.Answered >= 0 && c.Status == 202) || c.Aborted) {
				delivered = true
			}
		}
		if delivered && exp.body == "error-json" {
			exp = expect{body: "own-response"}
		}
		ok := false
		switch exp.body {
		case "own-response":
			ok = string(inv.Body) == echo
		case "init-error-payload":
			ok = string(inv.Body) == string(faults.InitErrorPayload)
		case "empty":
			// "failure status only": nothing the statement could be held to beyond the status; what the
			// emulator adds, if anything, must be its own error document naming that fault (an initialisation
			// that runs inside an invocation reports this way), never somebody's payload
			ok = len(inv.Body) == 0
			if !ok {
				var m struct {
					ErrorType string `json:"errorType"`
				}
				if json.Unmarshal(inv.Body, &m) == nil && m.ErrorType == s.initFaultType() {
					ok = true
				}
			}
		case "error-json":
			var m struct {
				ErrorType string `json:"errorType"`
			}
			ok = json.Unmarshal(inv.Body, &m) == nil && m.ErrorType == exp.errorType
			if !ok {
				got = got + ":" + m.ErrorType
			}
		}
		if !ok {
			failf("2", fmt.Sprintf("wrong-body:want=%s/%s:got=%s", exp.body, exp.errorType, got), "invocation %d (fault %s): body %q, expected %s %s", i+1, s.F, trunc(inv.Body), exp.body, exp.errorType)
		}
		// (3) every process started before the answer is dead before the answer
		dead := map[int]bool{}
		for _, k := range w.K.Log {
			if k.Kind == "exit" && sched.HB(k.At, inv.AnsAt) {
				dead[k.Pid] = true
			}
		}
		for _, k := range w.K.Log {
			if k.Kind == "exec" && sched.HB(k.At, inv.AnsAt) && !dead[k.Pid] {
				failf("3", "process-survives-failure", "process %d (%s) of the failed environment was not terminated before the answer", k.Pid, k.Path)
			}
		}
		if s.F.Point == "launch" {
			continue // a program that cannot be launched stays so: every invocation fails the same way
		}
		// (4) the following invocation is served by new processes
		for _, c := range w.Calls {
			if c.Kind == "next" && c.Answered >= 0 && string(c.Body) == string(faults.Echo(i+1)) {
				for _, k := range w.K.Log {
					if k.Kind == "exec" && k.Pid == c.Pid && sched.HB(k.At, inv.AnsAt) {
						failf("4", "next-served-by-old-process", "invocation %d was served by process %d of the failed environment", i+2, c.Pid)
					}
				}
			}
		}
	}
	return strings.Join(outs, ","), w.Render(false), fail
}

func classify(inv *stack.Invoke, echo string) string {
	b := string(inv.Body)
	switch {
	case len(b) == 0:
		return "empty"
	case b == echo:
		return "own-response"
	case b == string(faults.InitErrorPayload):
		return "init-error-payload"
	case strings.HasPrefix(b, "Task timed out"):
		return "timeout-text"
	case strings.Contains(b, "errorType"):
		return "error-json"
	}
	return "other"
}

func rel(i, fi int) string {
	if i < fi {
		return "before"
	}
	return "after"
}

func trunc(b []byte) string {
	if len(b) > 140 {
		return string(b[:140]) + "..."
	}
	return string(b)
}

func init() {
	hx.Register(&hx.Property{ID: "C06", Scenarios: func(tier string) []hx.Scenario {
		var ss []scen
		b0 := 0
		maxExt := 1
		if tier == "thorough" {
			b0 = 1
			maxExt = 2
		}
		add := func(next int, f faults.Fault, b int) {
			ff := f
			ss = append(ss, scen{Scen: faults.Scen{NExt: next, F: &ff, Timeout: 3}, bound: b})
		}
		actions := []string{"exit0", "exit1", "sig9"}
		for next := 0; next <= maxExt; next++ {
			for _, a := range actions {
				for _, p := range []string{"before-next", "init-error"} {
					add(next, faults.Fault{Who: "runtime", Point: p, Action: a, At: 1}, b0)
				}
				if next == 0 && a != "exit0" {
					add(next, faults.Fault{Who: "runtime", Point: "init-error", Action: a, At: 1, Twice: true}, b0)
				}
				for _, at := range []int{1, 2} {
					for _, p := range []string{"after-next", "after-response", "idle"} {
						add(next, faults.Fault{Who: "runtime", Point: p, Action: a, At: at}, b0)
					}
				}
				for x := 0; x < next; x++ {
					who := fmt.Sprintf("ext%d", x)
					for _, p := range []string{"before-register", "after-register", "init-error", "exit-error-init"} {
						add(next, faults.Fault{Who: who, Point: p, Action: a, At: 1}, b0)
					}
					for _, at := range []int{1, 2} {
						for _, p := range []string{"after-event", "exit-error", "idle"} {
							add(next, faults.Fault{Who: who, Point: p, Action: a, At: at}, b0)
						}
					}
				}
			}
			// a slow runtime: the extension's fault is processed before any response exists, so the error type shows
			for x := 0; x < next; x++ {
				for _, at := range []int{1, 2} {
					for _, p := range []string{"after-event", "exit-error"} {
						ff := faults.Fault{Who: fmt.Sprintf("ext%d", x), Point: p, Action: "exit1", At: at}
						ss = append(ss, scen{Scen: faults.Scen{NExt: next, F: &ff, Timeout: 3, SlowRt: true}, bound: b0})
					}
				}
			}
			for _, la := range []string{"enoent", "eacces"} {
				add(next, faults.Fault{Who: "runtime", Point: "launch", Action: la, At: 1}, b0)
				for x := 0; x < next; x++ {
					add(next, faults.Fault{Who: fmt.Sprintf("ext%d", x), Point: "launch", Action: la, At: 1}, b0)
				}
			}
		}
		// histories: a second fault in the environment started after the first one
		for next := 0; next <= 1; next++ {
			for _, p1 := range []string{"after-next", "before-next"} {
				for _, p2 := range []string{"after-next", "idle"} {
					f1 := faults.Fault{Who: "runtime", Point: p1, Action: "exit1", At: 1, Phase: "p1"}
					f2 := faults.Fault{Who: "runtime", Point: p2, Action: "sig9", At: 1, Phase: "p2"}
					second := 2
					if p2 == "idle" {
						second = 3
					}
					ss = append(ss, scen{Scen: faults.Scen{NExt: next, F: &f1, More: []*faults.Fault{&f2}, Timeout: 3, NInv: 5, FailAt: 1, PhaseOf: func(i int) string {
						if i == 1 {
							return "p1"
						}
						return "p2"
					}}, bound: b0, second: second})
				}
			}
		}
		if tier == "quick" {
			// the exit notification racing with the orchestration: a selection with one deviation
			for _, f := range []faults.Fault{
				{Who: "runtime", Point: "after-next", Action: "exit1", At: 1}, {Who: "runtime", Point: "after-response", Action: "sig9", At: 2},
				{Who: "runtime", Point: "before-next", Action: "exit1", At: 1}, {Who: "runtime", Point: "idle", Action: "exit0", At: 1},
			} {
				add(0, f, 1)
			}
			for _, f := range []faults.Fault{
				{Who: "ext0", Point: "after-event", Action: "exit1", At: 1}, {Who: "ext0", Point: "after-register", Action: "sig9", At: 1},
				{Who: "ext0", Point: "exit-error", Action: "exit1", At: 2}, {Who: "runtime", Point: "after-next", Action: "exit1", At: 2},
			} {
				add(1, f, 1)
			}
		}
		var out []hx.Scenario
		for _, s := range ss {
			s := s
			out = append(out, hx.Scenario{Name: s.name(), Run: s.run})
		}
		return out
	}})
}
