// Package c11 decides property C11: the barrier primitive (core.Gate) is an atomic counting latch.
//
// Part A (gate): up to 3 waiter threads and 2 operator threads act on one real gate. Operators pick
// each of their operations by a free choice from the full alphabet, so one exploration covers all
// operator programs up to the length bound and all their interleavings with the waiters (no
// deviation bound). The search is explicit-state: the cache key is the real latch state plus every
// thread's position. Oracle: an abstract latch stepped in the same atomic step as the real operation.
//
// Part B (flows): the init/invoke flow objects built from 3-4 gates, waiters on different gates,
// fan-out operations; happens-before cached schedule exploration with a deviation bound.
package c11

import (
	"errors"
	"fmt"
	"os"

	"go.amzn.com/lambda/core"
	"go.amzn.com/verifh/hx"
	"go.amzn.com/verifrt/sched"
)

type opKind int

const (
	opWalk opKind = iota
	opSet0
	opSet1
	opSet2
	opReset
	opCancelErr
	opCancelNil
	opClear
	opRegister1
	nOps
)

var opNames = [...]string{"WalkThrough", "SetCount(0)", "SetCount(1)", "SetCount(2)", "Reset", "CancelWithError(e)", "CancelWithError(nil)", "Clear", "Register(1)"}

var errE = errors.New("E")

// latch is the reference model.
type latch struct {
	count, arrived uint16
	canceled       bool
	err            error
}

func (m *latch) step(op opKind) error {
	switch op {
	case opWalk:
		if m.arrived == m.count {
			return core.ErrGateIntegrity
		}
		m.arrived++
	case opSet0, opSet1, opSet2:
		c := uint16(op - opSet0)
		if c < m.arrived {
			return core.ErrGateIntegrity
		}
		m.count = c
	case opReset:
		if !m.canceled {
			m.arrived = 0
		}
	case opCancelErr:
		m.canceled, m.err = true, errE
	case opCancelNil:
		m.canceled, m.err = true, nil
	case opClear:
		m.canceled, m.arrived, m.err = false, 0, nil
	case opRegister1:
		m.count++
	}
	return nil
}

func (m *latch) open() bool { return m.arrived == m.count || m.canceled }

func apply(g core.Gate, op opKind) error {
	switch op {
	case opWalk:
		return g.WalkThrough()
	case opSet0, opSet1, opSet2:
		return g.SetCount(uint16(op - opSet0))
	case opReset:
		g.Reset()
	case opCancelErr:
		g.CancelWithError(errE)
	case opCancelNil:
		g.CancelWithError(nil)
	case opClear:
		g.Clear()
	case opRegister1:
		g.Register(1)
	}
	return nil
}

type rec struct {
	fail     *sched.Failure
	returned []bool
	result   []string
	model    *latch
	history  []string
	lostWake bool
}

func (r *rec) failf(clause, sig, format string, a ...any) {
	if r.fail == nil {
		r.fail = &sched.Failure{Clause: clause, Sig: sig, Msg: fmt.Sprintf(format, a...) + " history=" + fmt.Sprint(r.history)}
	}
}

func errStr(e error) string {
	if e == nil {
		return "nil"
	}
	return e.Error()
}

// firstOp >= 0 fixes the first choice of operator 0 (the thorough tier splits one exploration into one scenario per
// first operation so that the sub-trees run on different cores); -1 leaves it free.
func gateBody(c0 uint16, waiters, operators, opsEach int, alphabet []opKind, firstOp int) func() {
	return func() {
		g := core.NewGate(c0)
		m := &latch{count: c0}
		r := &rec{returned: make([]bool, waiters), result: make([]string, waiters), model: m}
		e := sched.Cur()
		e.Values["rec"] = r
		done := make([]int, operators)
		inflight := make([]int, operators) // operation chosen but not yet performed (part of the state)
		var wth []*sched.Thread
		for w := 0; w < waiters; w++ {
			w := w
			wth = append(wth, sched.Go(fmt.Sprintf("waiter%d", w), func() {
				err := g.AwaitGateCondition()
				// same atomic step as the waiter's final acquisition of the latch mutex
				var want error
				switch {
				case m.canceled && m.err != nil:
					want = m.err
				case m.canceled:
					want = core.ErrGateCanceled
				case m.arrived == m.count:
					want = nil
				default:
					r.failf("2", "premature-return", "waiter %d returned %s while arrived=%d count=%d not cancelled", w, errStr(err), m.arrived, m.count)
				}
				if err != want {
					r.failf("2", "waiter-result", "waiter %d returned %s, latch model says %s", w, errStr(err), errStr(want))
				}
				r.returned[w] = true
				r.result[w] = errStr(err)
				r.history = append(r.history, fmt.Sprintf("w%d->%s", w, errStr(err)))
			}))
		}
		for o := 0; o < operators; o++ {
			o := o
			sched.Go(fmt.Sprintf("operator%d", o), func() {
				for i := 0; i < opsEach; i++ {
					k := firstOp
					if o != 0 || i != 0 || firstOp < 0 {
						k = sched.Choose(len(alphabet)+1, "op")
					}
					if k == len(alphabet) {
						break // shorter program
					}
					op := alphabet[k]
					inflight[o] = int(op) + 1
					got := apply(g, op)
					inflight[o] = 0
					want := m.step(op)
					done[o]++
					r.history = append(r.history, fmt.Sprintf("o%d:%s=%s", o, opNames[op], errStr(got)))
					if got != want {
						r.failf("1", "op-result:"+opNames[op], "%s returned %s, latch model says %s", opNames[op], errStr(got), errStr(want))
					}
					cnt, arr, can, ge := core.VerifGateState(g)
					if cnt != m.count || arr != m.arrived || can != m.canceled || ge != m.err {
						r.failf("1", "state:"+opNames[op], "after %s real latch (count=%d arrived=%d cancelled=%v err=%s) differs from model (count=%d arrived=%d cancelled=%v err=%s)",
							opNames[op], cnt, arr, can, errStr(ge), m.count, m.arrived, m.canceled, errStr(m.err))
					}
				}
				done[o] = opsEach
			})
		}
		// semantic state key: real latch + every thread's position
		if os.Getenv("VERIF_NOKEYFN") == "" {
			sched.SetKeyFn(func() sched.Hash {
				cnt, arr, can, ge := core.VerifGateState(g)
				h := sched.Hash{A: uint64(cnt)<<32 | uint64(arr)<<8, B: 77}
				if can {
					h = h.Mix(1)
				}
				if ge != nil {
					h = h.Mix(2)
				}
				for _, t := range e.Threads() {
					x := uint64(0)
					switch {
					case t.Done():
						x = 1
					case t.Pend() == nil:
						x = 2
					default:
						x = sched.HashString(t.Pend().Kind).A
						if t.Enabled() {
							x ^= 0xff
						}
					}
					h = h.Mix(x).Mix(sched.HashString(t.ID).A)
				}
				for w := range r.returned {
					h = h.MixH(sched.HashString(r.result[w]))
				}
				for i, d := range done {
					h = h.Mix(uint64(d) + 5).Mix(uint64(inflight[i]) + 50)
				}
				if r.fail != nil {
					h = h.Mix(99)
				}
				return h
			})
		}
		sched.WaitIdle()
		// quiescent: nobody can move any more
		for w := 0; w < waiters; w++ {
			if !r.returned[w] && m.open() {
				r.lostWake = true
				r.failf("3", "lost-wakeup", "waiter %d is still blocked in the quiescent state although arrived=%d count=%d cancelled=%v", w, m.arrived, m.count, m.canceled)
			}
		}
		sched.Finish()
	}
}

func judge(e *sched.Exec) (string, string, *sched.Failure) {
	r, _ := e.Values["rec"].(*rec)
	if e.Crash != nil {
		return "crash", e.Crash.Value, &sched.Failure{Clause: "1", Sig: "crash", Msg: "panic: " + e.Crash.Value}
	}
	if r == nil {
		return "norec", "", &sched.Failure{Clause: "engine", Sig: "norec", Msg: "no record"}
	}
	if e.Status() != sched.Finished {
		return e.Status().String(), "", &sched.Failure{Clause: "engine", Sig: "status:" + e.Status().String(), Msg: "execution ended with status " + e.Status().String() + " blocked=" + fmt.Sprint(e.Blocked)}
	}
	outcome := fmt.Sprintf("c=%d a=%d x=%v ret=%v", r.model.count, r.model.arrived, r.model.canceled, r.result)
	return outcome, fmt.Sprint(r.history), r.fail
}

// gateScenarioSplit: the same exploration as gateScenario, one scenario per first operation of operator 0.
func gateScenarioSplit(c0 uint16, waiters, operators, opsEach int) []hx.Scenario {
	var out []hx.Scenario
	for k := 0; k <= len(fullAlphabet); k++ {
		k := k
		first := "none(shorter program)"
		if k < len(fullAlphabet) {
			first = opNames[fullAlphabet[k]]
		}
		name := fmt.Sprintf("gate/count0=%d/waiters=%d/operators=%d/ops=%d/operator0-first=%s", c0, waiters, operators, opsEach, first)
		out = append(out, hx.Scenario{Name: name, Run: func(c *hx.Ctx) *hx.ScenarioResult {
			opt := sched.Options{Bound: 1 << 20, MaxSteps: 10000}
			return hx.ExploreScenario(c, "C11", name, opt, gateBody(c0, waiters, operators, opsEach, fullAlphabet, k), judge)
		}})
	}
	return out
}

var fullAlphabet = []opKind{opWalk, opSet0, opSet1, opSet2, opReset, opCancelErr, opCancelNil, opClear, opRegister1}

func gateScenario(c0 uint16, waiters, operators, opsEach int) hx.Scenario {
	name := fmt.Sprintf("gate/count0=%d/waiters=%d/operators=%d/ops=%d", c0, waiters, operators, opsEach)
	return hx.Scenario{Name: name, Run: func(c *hx.Ctx) *hx.ScenarioResult {
		opt := sched.Options{Bound: 1 << 20, MaxSteps: 10000}
		return hx.ExploreScenario(c, "C11", name, opt, gateBody(c0, waiters, operators, opsEach, fullAlphabet, -1), judge)
	}}
}

func init() {
	hx.Register(&hx.Property{ID: "C11", Scenarios: func(tier string) []hx.Scenario {
		var s []hx.Scenario
		if tier == "quick" {
			for c0 := uint16(0); c0 <= 2; c0++ {
				s = append(s, gateScenario(c0, 2, 2, 2))
			}
			s = append(s, gateScenario(1, 3, 1, 3))
			s = append(s, gateScenario(1, 2, 2, 1))
		} else {
			for c0 := uint16(0); c0 <= 2; c0++ {
				s = append(s, gateScenarioSplit(c0, 3, 2, 2)...)
				s = append(s, gateScenarioSplit(c0, 2, 2, 3)...)
			}
		}
		s = append(s, flowScenarios(tier)...)
		return s
	}})
}
