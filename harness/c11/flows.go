package c11

import (
	"context"
	"fmt"
	"time"

	"go.amzn.com/lambda/core"
	"go.amzn.com/lambda/interop"
	"go.amzn.com/verifh/hx"
	"go.amzn.com/verifrt/sched"
	"go.amzn.com/verifrt/vcontext"
	"go.amzn.com/verifrt/vtime"
)

// flowRec is the ground truth the flow oracles read: arrivals recorded in the same atomic step as the
// real arrival, cancellation start/end, results of every await.
type flowRec struct {
	fail        *sched.Failure
	arrived     map[string]int
	cancelBegun bool
	cancelDone  bool
	trace       []string
	orchDone    bool
}

func (r *flowRec) failf(clause, sig, format string, a ...any) {
	if r.fail == nil {
		r.fail = &sched.Failure{Clause: clause, Sig: sig, Msg: fmt.Sprintf(format, a...) + " trace=" + fmt.Sprint(r.trace)}
	}
}

func (r *flowRec) arrive(gate string, err error) {
	if err == nil {
		r.arrived[gate]++
	}
	r.trace = append(r.trace, fmt.Sprintf("arrive:%s=%s", gate, errStr(err)))
	sched.Record("arrive:" + gate)
}

// await checks one await result: nil only when all expected arrivals were made; the cancellation
// error only once a cancellation has begun.
func (r *flowRec) await(gate string, expected int, err error, cancelErr error) {
	r.trace = append(r.trace, fmt.Sprintf("await:%s=%s", gate, errStr(err)))
	sched.Record("await:" + gate + errStr(err))
	switch {
	case err == nil:
		if r.arrived[gate] != expected {
			r.failf("2", "flow-premature:"+gate, "await on %s returned nil after %d of %d arrivals", gate, r.arrived[gate], expected)
		}
	case err == cancelErr:
		if !r.cancelBegun {
			r.failf("2", "flow-spurious-cancel:"+gate, "await on %s returned the cancellation error before any cancellation", gate)
		}
	default:
		r.failf("2", "flow-await-error:"+gate, "await on %s returned unexpected %s", gate, errStr(err))
	}
}

func flowJudge(e *sched.Exec) (string, string, *sched.Failure) {
	r, _ := e.Values["rec"].(*flowRec)
	if e.Crash != nil {
		return "crash", e.Crash.Value, &sched.Failure{Clause: "1", Sig: "crash", Msg: "panic: " + e.Crash.Value + "\n" + e.Crash.Stack}
	}
	if r == nil {
		return "norec", "", &sched.Failure{Clause: "engine", Sig: "norec", Msg: "no record"}
	}
	if e.Status() != sched.Finished {
		return e.Status().String(), "", &sched.Failure{Clause: "3", Sig: "flow-hang", Msg: "flow scenario ended " + e.Status().String() + " blocked=" + fmt.Sprint(e.Blocked) + " trace=" + fmt.Sprint(r.trace)}
	}
	return fmt.Sprint(r.trace), fmt.Sprint(r.trace), r.fail
}

// initFlowBody: orchestrator + n agents + runtime (+ optional canceller) on a real InitFlowSynchronization.
func initFlowBody(n int, withCancel bool) func() {
	return func() {
		f := core.NewInitFlowSynchronization()
		r := &flowRec{arrived: map[string]int{}}
		sched.Cur().Values["rec"] = r
		cErr := fmt.Errorf("cancelled")
		var ths []*sched.Thread
		orch := sched.Go("orchestrator", func() {
			if err := f.SetExternalAgentsRegisterCount(uint16(n)); err != nil {
				r.failf("1", "flow-setcount", "SetExternalAgentsRegisterCount: %v", err)
			}
			// as in the emulator, extensions are started only after the register count is set
			for i := 0; i < n; i++ {
				ths = append(ths, sched.Go(fmt.Sprintf("agent%d", i), func() {
					r.arrive("registered", f.ExternalAgentRegistered())
					r.arrive("agentReady", f.AgentReady())
				}))
			}
			err := f.AwaitExternalAgentsRegistered()
			r.await("registered", n, err, cErr)
			if err != nil {
				return
			}
			err = f.AwaitRuntimeRestoreReady()
			r.await("restoreReady", 1, err, cErr)
			if err != nil {
				return
			}
			if err := f.SetAgentsReadyCount(uint16(n)); err != nil {
				r.failf("1", "flow-setcount", "SetAgentsReadyCount(%d) refused: %v", n, err)
			}
			err = f.AwaitAgentsReady()
			r.await("agentReady", n, err, cErr)
			if err != nil {
				return
			}
			err = f.AwaitRuntimeReady()
			r.await("runtimeReady", 1, err, cErr)
		})
		var rest []*sched.Thread
		rest = append(rest, sched.Go("runtime", func() {
			r.arrive("restoreReady", f.RuntimeRestoreReady())
			r.arrive("runtimeReady", f.RuntimeReady())
		}))
		if withCancel {
			rest = append(rest, sched.Go("canceller", func() {
				r.cancelBegun = true
				sched.Record("cancel-begin")
				f.CancelWithError(cErr)
				r.cancelDone = true
			}))
		}
		for _, t := range rest {
			sched.Join(t)
		}
		// all arrivals made (and the cancellation finished): the orchestrator must terminate
		sched.Join(orch)
		for _, t := range ths {
			sched.Join(t)
		}
		sched.Finish()
	}
}

// invokeFlowBody: two consecutive rounds on a real InvokeFlowSynchronization (re-armed, not recreated).
func invokeFlowBody(k int, rounds int, withCancel bool) func() {
	return invokeFlowBodyMissing(k, rounds, withCancel, "")
}

// invokeFlowBodyMissing: as invokeFlowBody, but in the last round one party never makes its arrival ("response",
// "runtimeReady" or "agent"): only the cancellation can release the orchestrator, whichever barrier it waits at.
func invokeFlowBodyMissing(k int, rounds int, withCancel bool, missing string) func() {
	return func() {
		f := core.NewInvokeFlowSynchronization()
		r := &flowRec{arrived: map[string]int{}}
		sched.Cur().Values["rec"] = r
		cErr := fmt.Errorf("cancelled")
		failed := false
		for round := 0; round < rounds && !failed; round++ {
			r.arrived = map[string]int{}
			f.InitializeBarriers()
			if err := f.SetAgentsReadyCount(uint16(k)); err != nil {
				if !r.cancelBegun {
					r.failf("1", "flow-setcount", "round %d SetAgentsReadyCount(%d) refused: %v", round, k, err)
				}
			}
			var ths []*sched.Thread
			last := round == rounds-1
			ths = append(ths, sched.Go("runtime", func() {
				if last && missing == "response" {
					return
				}
				r.arrive("response", f.RuntimeResponse(nil))
				if last && missing == "runtimeReady" {
					return
				}
				r.arrive("runtimeReady", f.RuntimeReady(nil))
			}))
			for i := 0; i < k; i++ {
				i := i
				ths = append(ths, sched.Go(fmt.Sprintf("agent%d", i), func() {
					if last && missing == "agent" && i == 0 {
						return
					}
					r.arrive("agentReady", f.AgentReady())
				}))
			}
			if withCancel && round == rounds-1 {
				ths = append(ths, sched.Go("canceller", func() {
					r.cancelBegun = true
					sched.Record("cancel-begin")
					f.CancelWithError(cErr)
					r.cancelDone = true
				}))
			}
			err := f.AwaitRuntimeResponse()
			r.await("response", 1, err, cErr)
			if err == nil {
				err = f.AwaitRuntimeReady()
				r.await("runtimeReady", 1, err, cErr)
			}
			if err == nil {
				err = f.AwaitAgentsReady()
				r.await("agentReady", k, err, cErr)
			}
			if err != nil {
				failed = true
			}
			for _, t := range ths {
				sched.Join(t)
			}
		}
		sched.Finish()
	}
}

// deadlineBody: AwaitRuntimeReadyWithDeadline against a runtime that becomes ready at a virtual time
// before / at / after the deadline, or never.
func deadlineBody(readyAtMs int, deadlineMs int) func() {
	return func() {
		f := core.NewInitFlowSynchronization()
		r := &flowRec{arrived: map[string]int{}}
		sched.Cur().Values["rec"] = r
		if readyAtMs >= 0 {
			sched.Go("runtime", func() {
				vtime.Sleep(time.Duration(readyAtMs) * time.Millisecond)
				r.arrive("runtimeReady", f.RuntimeReady())
			})
		}
		ctx, cancel := vcontext.WithDeadline(context.Background(), vtime.Now().Add(time.Duration(deadlineMs)*time.Millisecond))
		defer cancel()
		start := sched.NowNs()
		err := f.AwaitRuntimeReadyWithDeadline(ctx)
		elapsed := sched.NowNs() - start
		r.trace = append(r.trace, fmt.Sprintf("awaitDL=%s", errStr(err)))
		switch {
		case err == nil:
			if r.arrived["runtimeReady"] != 1 {
				r.failf("2", "flow-premature:deadline", "AwaitRuntimeReadyWithDeadline returned nil before the runtime was ready")
			}
		case err == interop.ErrRestoreHookTimeout:
			if elapsed < int64(deadlineMs)*1e6 {
				r.failf("2", "flow-early-timeout", "timeout error after %d ns, deadline %d ms", elapsed, deadlineMs)
			}
		default:
			r.failf("2", "flow-await-error:deadline", "unexpected %s", errStr(err))
		}
		// the helper goroutine inside the flow must not stay blocked for ever once the flow is cancelled or ready
		sched.WaitIdle()
		for _, t := range sched.Cur().Threads() {
			if !t.Done() && t != sched.Me() && t.Pend() != nil && t.Pend().Kind == "Cond.Wait" {
				// a waiter parked on a gate that is open or cancelled
				r.failf("3", "flow-lost-wakeup", "thread %s still parked on a gate after the await returned %s", t.Name, errStr(err))
			}
		}
		sched.Finish()
	}
}

// initFlowRearmBody: an init flow is cancelled (what a reset does), cleared, and used again by the next generation:
// no waiter of the second round may return before its arrivals, all return nil after them.
func initFlowRearmBody(n int) func() {
	return func() {
		f := core.NewInitFlowSynchronization()
		r := &flowRec{arrived: map[string]int{}}
		sched.Cur().Values["rec"] = r
		cErr := fmt.Errorf("cancelled")
		for round := 0; round < 2; round++ {
			r.arrived = map[string]int{}
			r.cancelBegun = false
			if err := f.SetExternalAgentsRegisterCount(uint16(n)); err != nil {
				r.failf("1", "flow-setcount", "round %d SetExternalAgentsRegisterCount: %v", round, err)
			}
			var ths []*sched.Thread
			for i := 0; i < n; i++ {
				ths = append(ths, sched.Go(fmt.Sprintf("agent%d", i), func() {
					r.arrive("registered", f.ExternalAgentRegistered())
				}))
			}
			ths = append(ths, sched.Go("runtime", func() {
				r.arrive("restoreReady", f.RuntimeRestoreReady())
				r.arrive("runtimeReady", f.RuntimeReady())
			}))
			r.await("registered", n, f.AwaitExternalAgentsRegistered(), cErr)
			r.await("restoreReady", 1, f.AwaitRuntimeRestoreReady(), cErr)
			if err := f.SetAgentsReadyCount(0); err != nil {
				r.failf("1", "flow-setcount", "round %d SetAgentsReadyCount(0): %v", round, err)
			}
			r.await("agentReady", 0, f.AwaitAgentsReady(), cErr)
			r.await("runtimeReady", 1, f.AwaitRuntimeReady(), cErr)
			for _, t := range ths {
				sched.Join(t)
			}
			if round == 0 {
				// the generation is over: reset = cancel, then clear
				f.CancelWithError(cErr)
				f.Clear()
			}
		}
		sched.Finish()
	}
}

// invokeFlowRearmBody: an invoke flow is cancelled (what a reset does), cleared, and used again by the next
// generation: every barrier of it waits for its arrivals again and returns nil after them.
func invokeFlowRearmBody(k int) func() { return invokeFlowRearm(k, true) }

// invokeFlowRearm with clear=false: cancelled and re-armed without a clear - the cancellation stays in force at every
// barrier of the flow.
func invokeFlowRearm(k int, clear bool) func() {
	return func() {
		f := core.NewInvokeFlowSynchronization()
		r := &flowRec{arrived: map[string]int{}}
		sched.Cur().Values["rec"] = r
		cErr := fmt.Errorf("cancelled")
		for round := 0; round < 2; round++ {
			if round == 1 && !clear {
				f.InitializeBarriers()
				for _, aw := range []struct {
					name string
					fn   func() error
				}{{"response", f.AwaitRuntimeResponse}, {"runtimeReady", f.AwaitRuntimeReady}, {"agentReady", f.AwaitAgentsReady}} {
					err := aw.fn()
					r.trace = append(r.trace, "await:"+aw.name+"="+errStr(err))
					if err != cErr {
						r.failf("1", "flow-cancel-lost-on-rearm:"+aw.name, "the flow was cancelled and re-armed without being cleared: await on %s returned %s, expected the cancellation error", aw.name, errStr(err))
					}
				}
				break
			}
			r.arrived = map[string]int{}
			r.cancelBegun = false
			f.InitializeBarriers()
			if err := f.SetAgentsReadyCount(uint16(k)); err != nil {
				r.failf("1", "flow-setcount", "round %d SetAgentsReadyCount(%d) refused: %v", round, k, err)
			}
			var ths []*sched.Thread
			ths = append(ths, sched.Go("runtime", func() {
				r.arrive("response", f.RuntimeResponse(nil))
				r.arrive("runtimeReady", f.RuntimeReady(nil))
			}))
			for i := 0; i < k; i++ {
				ths = append(ths, sched.Go(fmt.Sprintf("agent%d", i), func() {
					r.arrive("agentReady", f.AgentReady())
				}))
			}
			r.await("response", 1, f.AwaitRuntimeResponse(), cErr)
			r.await("runtimeReady", 1, f.AwaitRuntimeReady(), cErr)
			r.await("agentReady", k, f.AwaitAgentsReady(), cErr)
			for _, t := range ths {
				sched.Join(t)
			}
			if round == 0 {
				f.CancelWithError(cErr)
				if clear {
					f.Clear()
				}
			}
		}
		sched.Finish()
	}
}

func flowScenarios(tier string) []hx.Scenario {
	b := 2
	if tier == "thorough" {
		b = 3
	}
	var s []hx.Scenario
	add := func(name string, body func(), bound int) {
		s = append(s, hx.Scenario{Name: name, Run: func(c *hx.Ctx) *hx.ScenarioResult {
			return hx.ExploreScenario(c, "C11", name, sched.Options{Bound: bound, MaxSteps: 20000}, body, flowJudge)
		}})
	}
	maxAgents := 2
	if tier == "thorough" {
		maxAgents = 3
	}
	for n := 0; n <= maxAgents; n++ {
		add(fmt.Sprintf("initflow/agents=%d", n), initFlowBody(n, false), b)
		add(fmt.Sprintf("initflow/agents=%d/cancel", n), initFlowBody(n, true), b)
		if n <= 2 {
			add(fmt.Sprintf("initflow/agents=%d/round,cancel,clear,round", n), initFlowRearmBody(n), 1)
			add(fmt.Sprintf("invokeflow/agents=%d/round,cancel,clear,round", n), invokeFlowRearmBody(n), 1)
			add(fmt.Sprintf("invokeflow/agents=%d/round,cancel,rearm-without-clear", n), invokeFlowRearm(n, false), 1)
		}
		add(fmt.Sprintf("invokeflow/agents=%d/rounds=2", n), invokeFlowBody(n, 2, false), b)
		add(fmt.Sprintf("invokeflow/agents=%d/rounds=2/cancel", n), invokeFlowBody(n, 2, true), b)
		for _, miss := range []string{"response", "runtimeReady", "agent"} {
			if miss == "agent" && n == 0 {
				continue
			}
			add(fmt.Sprintf("invokeflow/agents=%d/rounds=2/cancel/%s-never-arrives", n, miss), invokeFlowBodyMissing(n, 2, true, miss), b)
		}
	}
	for _, ra := range []int{-1, 0, 5, 10, 15} {
		add(fmt.Sprintf("deadline/readyAt=%dms/deadline=10ms", ra), deadlineBody(ra, 10), b)
	}
	return s
}
