package c17

import (
	"go.amzn.com/lambda/interop"
	"go.amzn.com/verifrt/vchan"
)

// channel helpers: harness code is not instrumented, so channel operations go through the shim explicitly

func vrecv(c chan *interop.InvokeResponseMetrics) *interop.InvokeResponseMetrics {
	return vchan.Recv(c)
}

// vtrySend mirrors Server.Reset: select { case ch <- reset: ...; default: }
func vtrySend(c chan *interop.Reset, r *interop.Reset) bool {
	return vchan.Select(true, vchan.S(c, r)) == 0
}

func vrecvReset(c chan *interop.Reset) { vchan.Recv(c) }
