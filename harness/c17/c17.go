// Package c17 decides property C17: the direct-invoke streaming path - stateless parsing of the
// optional headers, faithful copy with exact Complete / Oversized / Truncated classification, rate
// bound and termination of the streaming copy under resets at any point.
package c17

import (
	"context"
	"errors"
	"fmt"
	"io"
	"math"
	"net"
	"net/http"
	"net/http/httptest"
	"strings"
	"time"

	"github.com/go-chi/chi"
	"go.amzn.com/lambda/core/directinvoke"
	"go.amzn.com/lambda/interop"
	"go.amzn.com/verifh/hx"
	"go.amzn.com/verifrt/sched"
	"go.amzn.com/verifrt/vtime"
)

func resetGlobals() {
	directinvoke.MaxDirectResponseSize = interop.MaxPayloadSize
	directinvoke.InvokeResponseMode = interop.InvokeResponseModeBuffered
	directinvoke.ResponseBandwidthRate = interop.ResponseBandwidthRate
	directinvoke.ResponseBandwidthBurstSize = interop.ResponseBandwidthBurstSize
}

// ---------- (a) parsing is independent of earlier requests ----------

type reqSpec struct {
	MaxPayload string // "" absent
	Mode       string
	Rate       string
	Burst      string
	Token      string // match | bad-id | bad-token | bad-version
}

func (r reqSpec) String() string {
	return fmt.Sprintf("max=%q mode=%q rate=%q burst=%q token=%s", r.MaxPayload, r.Mode, r.Rate, r.Burst, r.Token)
}

var token = interop.Token{ReservationToken: "res-tok", InvokeID: "inv-id", VersionID: "7", FunctionTimeout: 3 * time.Second, InvackDeadlineNs: math.MaxInt64}

func allSpecs() []reqSpec {
	var out []reqSpec
	for _, mp := range []string{"", "-1", "0", "1024", "junk", "-2"} {
		for _, mode := range []string{"", "Buffered", "Streaming", "streaming", "junk"} {
			for _, rb := range [][2]string{{"", ""}, {"32768", "32768"}, {"67108864", "67108864"}, {"1", ""}, {"", "99999999999"}, {"4096000", ""}} {
				for _, tk := range []string{"match", "bad-id"} {
					out = append(out, reqSpec{mp, mode, rb[0], rb[1], tk})
				}
			}
		}
	}
	out = append(out, reqSpec{"", "", "", "", "bad-token"}, reqSpec{"", "Streaming", "", "", "bad-version"})
	return out
}

// observe performs one ReceiveDirectInvoke and renders everything a caller or the later copy depends on.
func observe(s reqSpec) string {
	w := httptest.NewRecorder()
	r := httptest.NewRequest("POST", "http://x/2018-06-01/invoke/res-tok", strings.NewReader("payload"))
	rctx := chi.NewRouteContext()
	tok := "res-tok"
	if s.Token == "bad-token" {
		tok = "other"
	}
	rctx.URLParams.Add("reservationtoken", tok)
	r = r.WithContext(context.WithValue(r.Context(), chi.RouteCtxKey, rctx))
	set := func(k, v string) {
		if v != "" {
			r.Header.Set(k, v)
		}
	}
	set(directinvoke.MaxPayloadSizeHeader, s.MaxPayload)
	set(directinvoke.InvokeResponseModeHeader, s.Mode)
	set(directinvoke.ResponseBandwidthRateHeader, s.Rate)
	set(directinvoke.ResponseBandwidthBurstSizeHeader, s.Burst)
	id := "inv-id"
	if s.Token == "bad-id" {
		id = "nope"
	}
	r.Header.Set(directinvoke.InvokeIDHeader, id)
	ver := "7"
	if s.Token == "bad-version" {
		ver = "8"
	}
	r.Header.Set(directinvoke.VersionIDHeader, ver)
	inv, err := directinvoke.ReceiveDirectInvoke(w, r, token)
	var sb strings.Builder
	fmt.Fprintf(&sb, "err=%v status=%d errtype=%q trailers=%v", err, w.Code, w.Header().Get(directinvoke.ErrorTypeHeader), w.Header().Values("Trailer"))
	if inv != nil {
		fmt.Fprintf(&sb, " inv.mode=%s inv.id=%s", inv.InvokeResponseMode, inv.ID)
	}
	if err == nil {
		// the settings the response path will use
		fmt.Fprintf(&sb, " max=%d mode=%s", directinvoke.MaxDirectResponseSize, directinvoke.InvokeResponseMode)
		if directinvoke.InvokeResponseMode == interop.InvokeResponseModeStreaming {
			fmt.Fprintf(&sb, " rate=%d burst=%d", directinvoke.ResponseBandwidthRate, directinvoke.ResponseBandwidthBurstSize)
		}
	}
	return sb.String()
}

func parseScenarios(tier string) []hx.Scenario {
	specs := allSpecs()
	var out []hx.Scenario
	chunks := 16
	for ch := 0; ch < chunks; ch++ {
		ch := ch
		name := fmt.Sprintf("parse/history-independence/first-request-chunk=%d", ch)
		out = append(out, hx.Scenario{Name: name, Run: func(c *hx.Ctx) *hx.ScenarioResult {
			res := &hx.ScenarioResult{Name: name, Exhaustive: true, Outcomes: map[string]int64{}}
			fresh := map[string]string{}
			for _, s := range specs {
				resetGlobals()
				fresh[s.String()] = observe(s)
				if ch != 0 {
					continue
				}
				// validation on fresh state: a request that does not match the reservation (token, invoke id, version)
				// is refused; a matching one without optional headers gets the defaults
				got := fresh[s.String()]
				res.Evaluations++
				switch {
				case s.Token != "match" && strings.HasPrefix(got, "err=<nil>"):
					res.Violations = append(res.Violations, hx.ViolationRec{Property: "C17", Scenario: name, Clause: "a", Sig: "not-validated:" + s.Token,
						Msg: fmt.Sprintf("request [%s] does not match the reservation (%s) but was accepted: %s", s, s.Token, got), Input: []string{s.String()}})
				case s.Token == "match" && s.MaxPayload == "" && s.Mode == "" && s.Rate == "" && s.Burst == "":
					want := fmt.Sprintf(" max=%d mode=%s", interop.MaxPayloadSize, interop.InvokeResponseModeBuffered)
					if !strings.HasPrefix(got, "err=<nil>") || !strings.HasSuffix(got, want) {
						res.Violations = append(res.Violations, hx.ViolationRec{Property: "C17", Scenario: name, Clause: "a", Sig: "defaults-not-applied",
							Msg: fmt.Sprintf("request [%s] without optional headers is handled as %s, expected acceptance with%s", s, got, want), Input: []string{s.String()}})
					}
				}
			}
			check := func(hist []reqSpec) {
				resetGlobals()
				for _, h := range hist[:len(hist)-1] {
					observe(h)
				}
				last := hist[len(hist)-1]
				got := observe(last)
				res.Evaluations++
				res.Outcomes[got]++
				if got != fresh[last.String()] && len(res.Violations) < 5 {
					var names []string
					for _, h := range hist {
						names = append(names, h.String())
					}
					cls := "other"
					switch {
					case (strings.Contains(got, "mode=Streaming") && !strings.Contains(fresh[last.String()], "mode=Streaming")) ||
						(strings.Contains(got, "Lambda-Runtime-Function-Error-Type") != strings.Contains(fresh[last.String()], "Lambda-Runtime-Function-Error-Type")):
						cls = "response-mode-sticks"
					case strings.Contains(got, "rate=") || strings.Contains(got, "burst="):
						cls = "bandwidth-sticks"
					}
					res.Violations = append(res.Violations, hx.ViolationRec{Property: "C17", Scenario: name, Clause: "a", Sig: "parse-depends-on-history:" + cls,
						Msg: fmt.Sprintf("request [%s] after %v is handled as\n  %s\non fresh state it is handled as\n  %s", last, names[:len(names)-1], got, fresh[last.String()]), Input: names})
				}
			}
			for i, a := range specs {
				if i%chunks != ch {
					continue
				}
				for _, b := range specs {
					check([]reqSpec{a, b})
					if tier == "thorough" {
						for k, d := range specs {
							if k%7 == 0 {
								check([]reqSpec{a, b, d})
							}
						}
					}
				}
			}
			res.Distinct = int64(len(res.Outcomes))
			res.Samples = append(res.Samples, map[string]any{"history": []string{specs[3].String(), specs[40].String()}, "observed": fresh[specs[40].String()]})
			resetGlobals()
			return res
		}})
	}
	return out
}

// ---------- recording response writer ----------

type write struct {
	n  int
	at int64
}

type recWriter struct {
	hdr     http.Header
	body    []byte
	writes  []write
	status  int
	failAt  int // fail the k-th Write (1-based), 0 = never
	nwrites int
	flushes int
	fired   bool
}

func (w *recWriter) Header() http.Header { return w.hdr }
func (w *recWriter) WriteHeader(s int)   { w.status = s }
func (w *recWriter) Flush()              { w.flushes++ }
func (w *recWriter) Write(p []byte) (int, error) {
	w.nwrites++
	if w.failAt > 0 && w.nwrites == w.failAt {
		w.fired = true
		return 0, errors.New("injected write error")
	}
	w.body = append(w.body, p...)
	w.writes = append(w.writes, write{len(p), sched.NowNs()})
	return len(p), nil
}

// chunkReader delivers a payload in reads of a given size and can fail at a given read.
type chunkReader struct {
	data   []byte
	off    int
	chunk  int
	failAt int // fail the k-th Read (1-based)
	nreads int
	closed *bool
	fired  bool
	// stallAfter > 0: once this many bytes were handed out the runtime goes silent - Read blocks until the
	// connection is closed (which is what cancelling the request does)
	stallAfter int
}

func (r *chunkReader) Read(p []byte) (int, error) {
	r.nreads++
	if r.stallAfter > 0 && r.off >= r.stallAfter && !(r.closed != nil && *r.closed) {
		sched.Block("runtime-silent", nil, func() bool { return r.closed != nil && *r.closed })
	}
	if r.closed != nil && *r.closed {
		return 0, io.ErrClosedPipe
	}
	if r.failAt > 0 && r.nreads == r.failAt {
		r.fired = true
		return 0, errors.New("injected read error")
	}
	if r.off >= len(r.data) {
		return 0, io.EOF
	}
	n := r.chunk
	if n > len(p) {
		n = len(p)
	}
	if n > len(r.data)-r.off {
		n = len(r.data) - r.off
	}
	copy(p, r.data[r.off:r.off+n])
	r.off += n
	return n, nil
}

func pattern(n int) []byte {
	b := make([]byte, n)
	for i := range b {
		b[i] = byte((i*13 + i/255) % 251)
	}
	return b
}

type fakeConn struct {
	net.Conn
	closed *bool
}

func (c fakeConn) Close() error { *c.closed = true; return nil }

// ---------- (b) faithful copy and classification ----------

type copyCase struct {
	streaming bool
	limit     int64
	size      int
	chunk     int
	failRead  int
	failWrite int
	stall     int // the runtime goes silent after this many bytes (0: never)
}

func (c copyCase) String() string {
	if c.stall > 0 {
		return fmt.Sprintf("streaming=%v limit=%d size=%d chunk=%d runtime-silent-after=%d", c.streaming, c.limit, c.size, c.chunk, c.stall)
	}
	return fmt.Sprintf("streaming=%v limit=%d size=%d chunk=%d failRead=%d failWrite=%d", c.streaming, c.limit, c.size, c.chunk, c.failRead, c.failWrite)
}

type copyRec struct {
	w        *recWriter
	err      error
	returned bool
	leaked   []string
	metrics  *interop.InvokeResponseMetrics
	payload  []byte
	resetAt  int
	resetHit bool
	start    int64
	rd       *chunkReader
}

func runCopy(cc copyCase, resetAfterWrites int) func() {
	return func() {
		resetGlobals()
		directinvoke.MaxDirectResponseSize = cc.limit
		if cc.streaming {
			directinvoke.InvokeResponseMode = interop.InvokeResponseModeStreaming
		}
		if pendingRate != 0 {
			directinvoke.ResponseBandwidthRate, directinvoke.ResponseBandwidthBurstSize = pendingRate, pendingBurst
			pendingRate, pendingBurst = 0, 0
		}
		r := &copyRec{w: &recWriter{hdr: http.Header{}, failAt: cc.failWrite}, payload: pattern(cc.size), resetAt: resetAfterWrites, start: sched.NowNs()}
		sched.Cur().Values["rec"] = r
		closed := false
		rd := &chunkReader{data: r.payload, chunk: cc.chunk, failAt: cc.failRead, closed: &closed, stallAfter: cc.stall}
		r.rd = rd
		interrupted := make(chan *interop.Reset)
		sendResp := make(chan *interop.InvokeResponseMetrics)
		req := httptest.NewRequest("POST", "http://x/response", nil)
		req = req.WithContext(context.WithValue(req.Context(), interop.HTTPConnKey, net.Conn(fakeConn{closed: &closed})))
		root := sched.Me()
		sched.Go("metrics-consumer", func() { r.metrics = vrecv(sendResp) })
		if resetAfterWrites >= 0 {
			sched.Go("resetter", func() {
				// the reset arrives after a freely placed number of writes (and deviations move it around)
				sched.Block("await-writes", nil, func() bool { return len(r.w.writes) >= resetAfterWrites || r.returned })
				if r.returned {
					return
				}
				reset := &interop.Reset{Reason: "timeout"}
				if vtrySend(interrupted, reset) {
					r.resetHit = true
					vrecvReset(interrupted)
				}
				if cc.stall > 0 {
					closed = true // the reset goes on to kill the runtime: its connection is gone
				}
			})
		}
		r.err = directinvoke.SendDirectInvokeResponse(map[string]string{"Content-Type": "application/octet-stream"}, rd, http.Header{}, r.w, interrupted, sendResp,
			&interop.CancellableRequest{Request: req}, true, "inv-id")
		r.returned = true
		sched.WaitIdle()
		for _, t := range sched.Cur().Threads() {
			if !t.Done() && t != root {
				k := "?"
				if t.Pend() != nil {
					k = t.Pend().Kind
				}
				r.leaked = append(r.leaked, t.Name+"@"+k)
			}
		}
		resetGlobals()
		sched.Finish()
	}
}

func judgeCopy(cc copyCase, rate, burst int64) sched.Judge {
	return func(e *sched.Exec) (string, string, *sched.Failure) {
		if e.Crash != nil {
			return "crash", "crash", &sched.Failure{Clause: "b", Sig: "crash", Msg: "panic: " + e.Crash.Value + "\n" + e.Crash.Stack}
		}
		r, _ := e.Values["rec"].(*copyRec)
		if e.Status() != sched.Finished || r == nil {
			return e.Status().String(), "", &sched.Failure{Clause: "c", Sig: "copy-does-not-terminate", Msg: "the response path never returned: " + fmt.Sprint(e.Blocked)}
		}
		var fail *sched.Failure
		failf := func(clause, sig, f string, a ...any) {
			if fail == nil {
				fail = &sched.Failure{Clause: clause, Sig: sig, Msg: fmt.Sprintf(f, a...) + " case " + cc.String()}
			}
		}
		trailer := r.w.hdr.Get(directinvoke.EndOfResponseTrailer)
		body := r.w.body
		// forwarded bytes are a prefix of the payload, in order and unaltered
		if len(body) > len(r.payload) || string(body) != string(r.payload[:len(body)]) {
			failf("b", "bytes-altered", "forwarded %d bytes which are not a prefix of the %d byte payload", len(body), len(r.payload))
		}
		faulted := r.rd.fired || r.w.fired // did an injected error actually strike?
		switch {
		case r.resetHit:
			if trailer != directinvoke.EndOfResponseTruncated && trailer != directinvoke.EndOfResponseComplete && trailer != directinvoke.EndOfResponseOversized {
				failf("b", "trailer-on-reset", "interrupted by a reset: End-Of-Response trailer %q", trailer)
			}
			if cc.streaming && r.w.hdr.Get(directinvoke.FunctionErrorTypeTrailer) != "Sandbox.Timeout" {
				failf("b", "reset-error-type", "interrupted by a timeout reset: error type trailer %q", r.w.hdr.Get(directinvoke.FunctionErrorTypeTrailer))
			}
		case faulted:
			if trailer != directinvoke.EndOfResponseTruncated {
				failf("b", "not-truncated", "a copy error occurred but the trailer says %q", trailer)
			}
		case cc.limit >= 0 && int64(cc.size) > cc.limit:
			if trailer != directinvoke.EndOfResponseOversized {
				failf("b", "not-oversized", "payload of %d bytes with limit %d: trailer %q", cc.size, cc.limit, trailer)
			}
			if int64(len(body)) != cc.limit+1 {
				failf("b", "oversized-cut", "payload of %d bytes with limit %d: %d bytes forwarded, expected the cut one byte past the limit", cc.size, cc.limit, len(body))
			}
		default:
			if trailer != directinvoke.EndOfResponseComplete {
				failf("b", "not-complete", "payload of %d bytes within limit %d: trailer %q", cc.size, cc.limit, trailer)
			}
			if len(body) != cc.size {
				failf("b", "incomplete-body", "payload of %d bytes within the limit: %d bytes forwarded", cc.size, len(body))
			}
		}
		// (c) rate bound: at every write the cumulative volume stays below burst + rate * elapsed, elapsed counted
		// from the moment the copy was started (the bucket and its refill ticker are created after that)
		if cc.streaming {
			var cum int64
			for _, wr := range r.w.writes {
				cum += int64(wr.n)
				el := wr.at - r.start
				bound := burst + rate*el/1e9
				if cum > bound {
					failf("c", "rate-bound", "after %d ms %d bytes had been forwarded, bound is burst %d + rate %d/s * elapsed = %d", el/1e6, cum, burst, rate, bound)
					break
				}
			}
		}
		// termination: nobody is left behind
		if len(r.leaked) > 0 {
			failf("c", "thread-left-behind", "after the response path returned these threads are still parked: %v", r.leaked)
		}
		out := fmt.Sprintf("trailer=%s bytes=%d reset=%v err=%v", trailer, len(body), r.resetHit, r.err != nil)
		return out, out, fail
	}
}

func readsNeeded(cc copyCase) int {
	eff := cc.size
	if cc.limit >= 0 && int64(eff) > cc.limit+1 {
		eff = int(cc.limit + 1)
	}
	if cc.chunk <= 0 {
		return 1
	}
	return eff/cc.chunk + 1
}
func writesNeeded(cc copyCase) int { return readsNeeded(cc) }

func copyScenarios(tier string) []hx.Scenario {
	var out []hx.Scenario
	limits := []int64{0, 1, 1024, 70000}
	for _, streaming := range []bool{false, true} {
		for _, lim := range limits {
			streaming, lim := streaming, lim
			name := fmt.Sprintf("copy/streaming=%v/limit=%d", streaming, lim)
			out = append(out, hx.Scenario{Name: name, Run: func(c *hx.Ctx) *hx.ScenarioResult {
				res := &hx.ScenarioResult{Name: name, Exhaustive: true, Outcomes: map[string]int64{}}
				sizes := []int{0, 1, int(lim) - 1, int(lim), int(lim) + 1, int(lim) + 2, 3*int(lim) + 5}
				for _, size := range sizes {
					if size < 0 {
						continue
					}
					for _, chunk := range []int{1 << 20, 1, 32 * 1024, int(lim)/2 + 1, 7} {
						if chunk == 1 && size > 5000 {
							continue
						}
						faults := [][2]int{{0, 0}}
						n := size/chunk + 2
						if n > 4 {
							n = 4
						}
						for k := 1; k <= n; k++ {
							faults = append(faults, [2]int{k, 0}, [2]int{0, k})
						}
						for _, f := range faults {
							cc := copyCase{streaming: streaming, limit: lim, size: size, chunk: chunk, failRead: f[0], failWrite: f[1]}
							if c.Replay != nil && fmt.Sprint(c.Replay.Input) != cc.String() {
								continue
							}
							sub := hx.ExploreScenario(c, "C17", cc.String(), sched.Options{Bound: 0, MaxSteps: 300000, BoundAll: true, NoEarlyClock: true, HorizonClause: "c"}, runCopy(cc, -1), judgeCopy(cc, interop.ResponseBandwidthRate, interop.ResponseBandwidthBurstSize))
							res.Execs += sub.Execs
							res.Evaluations += sub.Execs
							res.States += sub.States
							res.Transitions += sub.Transitions
							for k, v := range sub.Outcomes {
								res.Outcomes[k] += v
							}
							for _, v := range sub.Violations {
								v.Scenario, v.Input = name, cc.String()
								if len(res.Violations) < 8 {
									res.Violations = append(res.Violations, v)
								}
							}
						}
					}
				}
				res.Distinct = int64(len(res.Outcomes))
				res.Samples = append(res.Samples, map[string]any{"case": copyCase{streaming, lim, int(lim) + 1, 7, 0, 0, 0}.String()})
				return res
			}})
		}
	}
	return out
}

// ---------- (c) rate bound and termination under resets ----------

func rateScenarios(tier string) []hx.Scenario {
	var out []hx.Scenario
	type corner struct{ rate, burst int64 }
	corners := []corner{{interop.MinResponseBandwidthRate, interop.MinResponseBandwidthBurstSize}, {interop.ResponseBandwidthRate, interop.MinResponseBandwidthBurstSize},
		{interop.MinResponseBandwidthRate, 256 * 1024}, {interop.MaxResponseBandwidthRate, interop.MinResponseBandwidthBurstSize}}
	if tier == "thorough" {
		corners = append(corners, corner{interop.ResponseBandwidthRate, interop.ResponseBandwidthBurstSize}, corner{interop.MaxResponseBandwidthRate, interop.MaxResponseBandwidthBurstSize}, corner{interop.MinResponseBandwidthRate, interop.MaxResponseBandwidthBurstSize})
	}
	b := 1
	if tier == "thorough" {
		b = 2
	}
	for _, co := range corners {
		refill := co.rate * 125 / 1000
		size := int(co.burst + 4*refill + 17)
		nw := size/(32*1024) + 2
		if nw > 12 {
			nw = 12
		}
		// without a reset: one scenario; with a reset: one scenario per number of writes after which it arrives
		// (deviations then move it around that point), so that the sub-trees run on different cores
		for k := -1; k < nw; k++ {
			co, k := co, k
			bound := b
			if k < 0 {
				bound = 0
			} else if size > 1<<20 && bound > 1 {
				bound = 1 // bodies of several MiB: one deviation
			}
			if size > 8<<20 && k > 0 && k != 3 && k != nw-1 {
				continue // 64 MiB bodies: the reset after 0, 3 and 11 writes only
			}
			name := fmt.Sprintf("rate/rate=%d/burst=%d/reset=false/B=%d", co.rate, co.burst, bound)
			if k >= 0 {
				name = fmt.Sprintf("rate/rate=%d/burst=%d/reset-after-writes=%d/B=%d", co.rate, co.burst, k, bound)
			}
			out = append(out, hx.Scenario{Name: name, Run: func(c *hx.Ctx) *hx.ScenarioResult {
				cc := copyCase{streaming: true, limit: -1, size: size, chunk: 1 << 20}
				body := func() {
					inner := runCopy(cc, k)
					// the bucket parameters of this corner (the parsing path sets them from headers; here directly)
					sched.Cur().Values["corner"] = co
					innerWithParams(inner, co.rate, co.burst)()
				}
				return hx.ExploreScenario(c, "C17", name, sched.Options{Bound: bound, MaxSteps: 300000, BoundAll: true, HorizonClause: "c"}, body, judgeCopy(cc, co.rate, co.burst))
			}})
		}
	}
	// the runtime goes silent in the middle of its response; a reset must still end the copy (Truncated)
	for k := 0; k <= 4; k++ {
		k := k
		cc := copyCase{streaming: true, limit: -1, size: 300 * 1024, chunk: 32 * 1024, stall: 100 * 1024}
		name := fmt.Sprintf("silent-runtime/%s/reset-after-writes=%d/B=%d", cc.String(), k, b)
		out = append(out, hx.Scenario{Name: name, Run: func(c *hx.Ctx) *hx.ScenarioResult {
			return hx.ExploreScenario(c, "C17", name, sched.Options{Bound: b, MaxSteps: 300000, BoundAll: true, HorizonClause: "c"}, runCopy(cc, k), judgeCopy(cc, interop.ResponseBandwidthRate, interop.ResponseBandwidthBurstSize))
		}})
	}
	return out
}

// innerWithParams runs a copy body with the bandwidth settings in force (runCopy resets the globals first).
func innerWithParams(inner func(), rate, burst int64) func() {
	return func() {
		pendingRate, pendingBurst = rate, burst
		inner()
	}
}

var pendingRate, pendingBurst int64

func init() {
	hx.Register(&hx.Property{ID: "C17", Scenarios: func(tier string) []hx.Scenario {
		var out []hx.Scenario
		out = append(out, parseScenarios(tier)...)
		out = append(out, copyScenarios(tier)...)
		out = append(out, rateScenarios(tier)...)
		return out
	}})
	_ = vtime.Now
}
