// Package faults builds closed-system scenarios in which one party (runtime or an extension) stalls,
// exits, crashes, fails to launch or reports an error at a chosen point of its protocol.
// Shared by C05 (stalls -> timeout), C06 (exits -> failure + recovery), C07, C08, C09, C15.
package faults

import (
	"fmt"
	"syscall"
	"time"

	"go.amzn.com/verifh/stack"
	"go.amzn.com/verifrt/sched"
	"go.amzn.com/verifrt/vtime"
)

// Fault says who misbehaves, where in its protocol, how, and during which invocation (1-based).
type Fault struct {
	Who    string // runtime | ext0 | ext1
	Point  string // runtime: launch before-next init-error after-next after-response idle ; ext: launch before-register after-register init-error exit-error-init exit-error after-event idle
	Action string // stall exit0 exit1 sig9 (launch: enoent eacces)
	At     int    // invocation during which the fault strikes (1 = first, includes initialisation), counted per process
	Phase  string // the fault applies to the first process of its program launched in this World.Phase ("" = default phase)
	// Twice (runtime init-error only): the runtime posts a second, different /init/error (which is refused) before it acts
	Twice bool
}

func (f *Fault) String() string {
	if f == nil {
		return "none"
	}
	if f.Twice {
		return fmt.Sprintf("%s/%s-twice/%s@%d", f.Who, f.Point, f.Action, f.At)
	}
	return fmt.Sprintf("%s/%s/%s@%d", f.Who, f.Point, f.Action, f.At)
}

// Scen is one fault scenario.
type Scen struct {
	NExt     int
	ExtEv    [][]string // events per extension (default INVOKE+SHUTDOWN)
	F        *Fault
	More     []*Fault // further faults (other phases)
	Timeout  int
	OnTermRt string // runtime's SIGTERM policy in the faulty generation
	OnTermEx string
	NInv     int
	SlowRt   bool // the runtime takes 300 ms to answer (so that an extension's fault lands before the response)
	// PhaseOf, if set, names the World.Phase in force from invocation i (1-based) on: faults carry a Phase
	// and strike the first process of their program launched in it (histories of several faulty generations)
	PhaseOf    func(i int) string
	FailAt     int  // overrides FailingInvocation (faults of later phases count invocations per process)
	VaryEvents bool // extensions of even generations subscribe to SHUTDOWN only
}

func (s Scen) Name() string {
	n := fmt.Sprintf("ext=%d fault=%s rtTerm=%s exTerm=%s", s.NExt, s.F, orDie(s.OnTermRt), orDie(s.OnTermEx))
	for _, m := range s.More {
		n += " then[" + m.Phase + "]=" + m.String()
	}
	if s.SlowRt {
		n += " slowRuntime"
	}
	if s.VaryEvents {
		n += " ext-events-vary-by-generation"
	}
	return n
}

func orDie(s string) string {
	if s == "" {
		return "die"
	}
	return s
}

// InitErrorPayload is what the runtime posts to /init/error.
var InitErrorPayload = []byte(`{"errorMessage":"init blew up","errorType":"Runtime.InitFailed","stackTrace":[]}`)

func Echo(i int) []byte { return []byte(fmt.Sprintf(`{"echo":%d,"tag":"inv-%d"}`, i, i)) }

func act(a *stack.Actor, action string) {
	switch action {
	case "stall":
		a.Stall()
	case "exit0":
		a.Exit(0)
	case "exit1":
		a.Exit(1)
	case "sig9":
		a.Crash(9)
	}
	panic("faults: unknown action " + action)
}

// dieLater makes the process die spontaneously d after now, from a helper thread (the script
// itself may be parked inside /next).
func dieLater(a *stack.Actor, action string, d time.Duration) {
	p := a.P
	sched.Go("die-later:"+a.Name, func() {
		vtime.Sleep(d)
		switch action {
		case "exit0":
			p.Exit(0)
		case "exit1":
			p.Exit(1)
		default:
			p.Die(9)
		}
	})
}

// Config builds the closed system of a scenario.
func (s Scen) Config() *stack.Config {
	if s.Timeout == 0 {
		s.Timeout = 3
	}
	cfg := &stack.Config{TimeoutSec: s.Timeout}
	all := append([]*Fault{}, s.More...)
	if s.F != nil {
		all = append(all, s.F)
	}
	// the fault (if any) that applies to this process: first launch of its program in the fault's phase
	pick := func(who string, a *stack.Actor) *Fault {
		for _, f := range all {
			if f.Who == who && f.Phase == a.Phase && a.PhaseGen == 1 {
				return f
			}
		}
		return nil
	}
	f := s.F
	if f != nil && f.Who == "runtime" && f.Point == "launch" {
		cfg.RuntimeStartErr = launchErr(f.Action) // persistent: a missing / non-executable program stays so
	}
	if f != nil && f.Who == "runtime" {
		cfg.RuntimeOnTerm = s.OnTermRt
	}
	cfg.Runtime = func(rt *stack.Actor) {
		f := pick("runtime", rt)
		mine := f != nil
		if mine && f.Point == "init-error" {
			rt.InitError("Runtime.InitFailed", InitErrorPayload)
			if f.Twice {
				rt.InitError("Runtime.SecondThoughts", []byte(`{"errorMessage":"a second report, refused, longer than the first one so that it would overwrite all of it","errorType":"Runtime.SecondThoughts","stackTrace":["x","y","z"]}`))
			}
			act(rt, f.Action)
		}
		if mine && f.Point == "before-next" {
			act(rt, f.Action)
		}
		k := 0
		for {
			n := rt.Next()
			if n.Status != 200 {
				rt.Stall()
			}
			k++
			if mine && f.Point == "after-next" && k == f.At {
				act(rt, f.Action)
			}
			if s.SlowRt {
				rt.Sleep(300 * time.Millisecond)
			}
			if c := rt.Response(n.ReqID, n.Body); c.Status != 202 {
				rt.Stall()
			}
			if mine && f.Point == "after-response" && k == f.At {
				act(rt, f.Action)
			}
			if mine && f.Point == "idle" && k == f.At {
				dieLater(rt, f.Action, 100*time.Millisecond)
			}
		}
	}
	for i := 0; i < s.NExt; i++ {
		i := i
		ev := []string{"INVOKE", "SHUTDOWN"}
		if i < len(s.ExtEv) && s.ExtEv[i] != nil {
			ev = s.ExtEv[i]
		}
		who := fmt.Sprintf("ext%d", i)
		spec := stack.ExtSpec{Name: fmt.Sprintf("e%d", i)}
		if f != nil && f.Who == who {
			spec.OnTerm = s.OnTermEx
			if f.Point == "launch" {
				spec.StartErr = launchErr(f.Action)
			}
		}
		spec.Body = func(x *stack.Actor) {
			f := pick(who, x)
			mine := f != nil
			if mine && f.Point == "before-register" {
				act(x, f.Action)
			}
			evs := ev
			if s.VaryEvents && x.Gen%2 == 0 {
				evs = []string{"SHUTDOWN"} // every second generation subscribes differently
			}
			if c := x.Register(evs, ""); c.Status != 200 {
				x.Stall()
			}
			if mine && f.Point == "after-register" {
				act(x, f.Action)
			}
			if mine && f.Point == "init-error" {
				x.ExtInitError("Extension.BadInit")
				act(x, f.Action)
			}
			if mine && f.Point == "exit-error-init" {
				x.ExtExitError("Extension.BadExit")
				act(x, f.Action)
			}
			k := 0
			for {
				e := x.ExtNext()
				if e.Status != 200 {
					x.Stall()
				}
				if stack.EventType(e) == "SHUTDOWN" {
					x.Exit(0)
				}
				k++
				if mine && f.Point == "after-event" && k == f.At {
					act(x, f.Action)
				}
				if mine && f.Point == "exit-error" && k == f.At {
					x.ExtExitError("Extension.BadExit")
					act(x, f.Action)
				}
				if mine && f.Point == "idle" && k == f.At {
					dieLater(x, f.Action, 100*time.Millisecond)
				}
			}
		}
		cfg.Exts = append(cfg.Exts, spec)
	}
	return cfg
}

func launchErr(a string) error {
	if a == "eacces" {
		return syscall.EACCES
	}
	return syscall.ENOENT
}

// Body runs NInv sequential invocations (a pause of 500 ms after each one lets "idle" faults strike).
func (s Scen) Body(cfg *stack.Config, devRegion func(i int) bool) func() {
	n := s.NInv
	if n == 0 {
		n = 3
	}
	return func() {
		w := stack.NewWorld(cfg)
		for i := 0; i < n; i++ {
			if devRegion != nil {
				sched.Region(devRegion(i + 1))
			}
			if s.PhaseOf != nil {
				w.Phase = s.PhaseOf(i + 1)
			}
			w.Invoke(Echo(i), nil)
			vtime.Sleep(500 * time.Millisecond)
		}
		sched.Finish()
	}
}

// FailingInvocation returns the 1-based index of the invocation the fault is expected to hit.
func (s Scen) FailingInvocation() int {
	if s.FailAt != 0 {
		return s.FailAt
	}
	if s.F == nil {
		return 0
	}
	if s.F.Point == "idle" {
		return s.F.At + 1
	}
	return s.F.At
}
