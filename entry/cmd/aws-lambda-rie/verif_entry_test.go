//go:build verif

package main

import (
	"net/http"
	"os"
	"testing"

	"go.amzn.com/lambda/interop"
	"go.amzn.com/verifh/ehook"
	"go.amzn.com/verifh/hx"
	_ "go.amzn.com/verifh/props"
)

// TestMain turns the test binary of the instrumented emulator into the verification worker.
func TestMain(m *testing.M) {
	ehook.InvokeHandler = func(w http.ResponseWriter, r *http.Request, sb ehook.Sandbox, bs interop.Bootstrap) {
		InvokeHandler(w, r, sb, bs)
	}
	ehook.NewSimpleBootstrap = NewSimpleBootstrap
	ehook.ResetInitDone = func() { initDone = false }
	hx.Main()
	os.Exit(0)
}
