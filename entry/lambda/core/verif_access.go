//go:build verif

package core

// VerifGateState exposes the latch fields to the C11 harness (state canonicalisation and oracle).
func VerifGateState(g Gate) (count, arrived uint16, canceled bool, err error) {
	gi := g.(*gateImpl)
	return gi.count, gi.arrived, gi.canceled, gi.err
}
