//go:build verif

package handler

import (
	"encoding/json"
	"net/http"
)

// VerifValidatedErrorCause runs an X-Ray error cause header value through the invocation-error handler's own
// validation step (what it stores for the tracer): nil when the cause is dropped.
func VerifValidatedErrorCause(headerValue string) json.RawMessage {
	h := &invocationErrorHandler{}
	hdr := http.Header{}
	hdr.Set(xrayErrorCauseHeaderName, headerValue)
	return h.getValidatedErrorCause(hdr)
}
