//go:build verif

package rapi

import "net/http"

// VerifHandler exposes the Runtime API router so that scripted actors can call it without a socket.
func (s *Server) VerifHandler() http.Handler { return s.server.Handler }
