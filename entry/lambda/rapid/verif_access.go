//go:build verif

package rapid

import (
	"go.amzn.com/lambda/appctx"
	"go.amzn.com/lambda/interop"
	"go.amzn.com/lambda/rapi"
)

// VerifServer returns the Runtime API server behind a RapidContext.
func VerifServer(c interop.RapidContext) *rapi.Server { return c.(*rapidContext).server }

// VerifRuntimeRelease returns the runtime identity string currently stored for the environment.
func VerifRuntimeRelease(c interop.RapidContext) string {
	return appctx.GetRuntimeRelease(c.(*rapidContext).appCtx)
}
