//go:build verif

package rapidcore

import "go.amzn.com/lambda/interop"

// VerifRapidCtx returns the RapidContext behind a SandboxContext.
func VerifRapidCtx(s interop.SandboxContext) interop.RapidContext { return s.(*SandboxContext).rapidCtx }
