#!/usr/bin/env python3
"""Prepares one round of independently written property-breaking changes: five scratch worktrees of /repo under
/tmp (seed-j1..5), each with PROPS.md (the text of four properties plus the sites earlier changes already took) and
PROMPT.txt (selftest/seed-prompt.txt with the worktree path filled in). The sub-agents get PROMPT.txt only."""
import glob, json, os, subprocess
V = os.path.dirname(os.path.dirname(os.path.abspath(__file__)))
props = {json.loads(l)['id']: json.loads(l) for l in open(V + '/properties.jsonl')}
groups = {1: ['C02', 'C13', 'C08', 'C19'], 2: ['C06', 'C15', 'C16', 'C03'], 3: ['C04', 'C18', 'C11', 'C09'], 4: ['C10', 'C20', 'C01', 'C14'], 5: ['C07', 'C05', 'C17', 'C12']}
taken = {}
for f in sorted(glob.glob(V + '/seeded/*/meta.json')):
    m = json.load(open(f)); pid = m['property']
    t = (m.get('title') or '').split(':', 1)[-1].strip() or m.get('breaks', '')[:100]
    files = ', '.join(x.replace('lambda/', '') for x in m.get('files_changed', []))
    taken.setdefault(pid, []).append(f"{files}: {t[:110]}")
prompt = open(V + '/selftest/seed-prompt.txt').read()
for g, ids in groups.items():
    w = f'/tmp/seed-j{g}'
    subprocess.run(['git', '-C', '/repo', 'worktree', 'add', '-q', '--detach', w, 'HEAD'], check=True)
    os.makedirs(w + '/seedout', exist_ok=True)
    open(w + '/seedout/go.mod', 'w').write('module seedout\n\ngo 1.23\n')
    with open(w + '/PROPS.md', 'w') as f:
        for i in ids:
            p = props[i]
            f.write(f"## {i} — {p['title']}\n\n**Statement.** {p['statement']}\n\n**Quantified over.** {p['quantifier']['text']}\n\n**Why the tests cannot settle it.** {p['why_tests_cant']}\n\n**Anchors.** files: {', '.join(p['anchors']['files'])}\n\n")
            for m in p['anchors'].get('mechanism', []): f.write(f"- mechanism: {m['name']} ({m['where']})\n")
            for s in p['anchors'].get('state', []): f.write(f"- state: {s['name']} — {s['meaning']} ({s['where']})\n")
            f.write("\n**Already taken (choose a different statement, preferably a different function and file):**\n")
            for t in taken.get(i, []): f.write(f"- {t}\n")
            f.write("\n")
    open(w + '/PROMPT.txt', 'w').write(prompt.replace('@W@', w).replace('@IDS@', ' '.join(ids)))
    print(g, ids)
