#!/usr/bin/env python3
"""usage: selftest/keepseed.py <seedout-dir-of-one-property> <Cxx> [more checks ...]

Confirms an independently written property-breaking change with selftest/seedcheck.sh (scratch worktree of
/repo: applies, builds, the repository's own suite passes with it, the demonstration fails with it and passes
without it), runs the named checks against it, and only if everything is confirmed stores it as
seeded/<Cxx>/ {patch.diff, demo/, notes.md, meta.json}."""
import json, os, re, shutil, subprocess, sys

V = os.path.dirname(os.path.dirname(os.path.abspath(__file__)))
sd, pid, checks = os.path.abspath(sys.argv[1]), sys.argv[2], sys.argv[2:]
out = subprocess.run([os.path.join(V, "selftest/seedcheck.sh"), sd] + checks, capture_output=True, text=True).stdout
print(out, end="")
lines = out.splitlines()
has = lambda s: any(l.startswith(s) for l in lines)
conf = {
    "applies": has("PATCH applies"),
    "builds": has("BUILD ok"),
    "repo_suite_passes_with_change": has("SUITE passes-with-change"),
    "demo_fails_with_change": has("DEMO fails-with-change"),
    "demo_passes_without_change": has("DEMO passes-without-change"),
}
results = []
for l in lines:
    m = re.match(r"CHECK (\S+) (DETECTED|MISSED|BROKEN)(?: \((\w+)[^)]*\))?:?\s*(.*)", l)
    if m:
        results.append({"check": m.group(1), "result": m.group(2).lower(), "tier": m.group(3) or "quick+thorough", "first_violation": m.group(4).strip()})
if not all(conf.values()):
    print("NOT KEPT: not confirmed", conf)
    sys.exit(1)
notes = open(os.path.join(sd, "notes.md")).read() if os.path.exists(os.path.join(sd, "notes.md")) else ""


def para(rx):
    m = re.search(rx + r".*?(?=\n\s*\n|\n\*\*|\n[A-Z][a-z]+[^\n]{0,40}:|\Z)", notes, re.S | re.I)
    return re.sub(r"\s+", " ", m.group(0)).strip(" *") if m else ""


dst = os.path.join(V, "seeded", pid + os.environ.get("SEED_TAG", ""))
if os.path.abspath(sd).startswith(os.path.join(V, "seeded") + os.sep):
    dst = os.path.abspath(sd)  # refreshing a stored seed in place
old_meta = {}
if os.path.exists(os.path.join(dst, "meta.json")):
    old_meta = json.load(open(os.path.join(dst, "meta.json")))
last = os.environ.get("LASTSEED") or os.path.join(V, "out", "last-seed.patch")  # the change as seedcheck applied it to the current HEAD of /repo
if dst != os.path.abspath(sd):
    shutil.rmtree(dst, ignore_errors=True)
    os.makedirs(dst)
    if os.path.isdir(os.path.join(sd, "demo")):
        shutil.copytree(os.path.join(sd, "demo"), os.path.join(dst, "demo"))
    if notes:
        open(os.path.join(dst, "notes.md"), "w").write(notes)
if os.path.exists(last) and os.path.getsize(last) > 0:
    shutil.copy(last, os.path.join(dst, "patch.diff"))
elif dst != os.path.abspath(sd):
    shutil.copy(os.path.join(sd, "patch.diff"), os.path.join(dst, "patch.diff"))
stat = subprocess.run(["git", "apply", "--stat", os.path.join(sd, "patch.diff")], capture_output=True, text=True, cwd="/repo").stdout.strip().splitlines()
meta = {
    "property": pid[:3],
    "written_by": "independent sub-agent given only the property text and a scratch worktree of /repo",
    "title": notes.splitlines()[0].lstrip("# ").strip() if notes else "",
    "files_changed": [l.split("|")[0].strip() for l in stat[:-1]],
    "breaks": para(r"\**Clauses? broken"),
    "needs_to_manifest": para(r"\**Needed to manifest"),
    "demonstration": sorted(os.path.relpath(os.path.join(r, f), dst) for r, _, fs in os.walk(os.path.join(dst, "demo")) for f in fs),
    "confirmed_by_me": conf,
    "what_i_ran": [
        "scratch worktree of /repo at HEAD (git worktree add --detach), removed afterwards",
        "git apply patch.diff; go build ./...; go test -vet=off -count=1 ./...  (whole repository suite, with the change)",
        "demonstration copied in: go test -vet=off -count=1 <its package> with the change (must fail) and after git apply -R (must pass)",
        "for each check: VERIF_REPO=<worktree> ./check <id> --tier quick, then --tier thorough if quick was silent",
    ],
    "checks": results,
}
if old_meta.get("why_missed"):
    meta["why_missed"] = old_meta["why_missed"]
json.dump(meta, open(os.path.join(dst, "meta.json"), "w"), indent=1)
print("KEPT", dst, [(r["check"], r["result"], r["tier"]) for r in results])
