#!/bin/bash
# usage: selftest/mutate.sh <patch.diff> <property> [tier]  -- applies the patch to a scratch worktree of
# /repo, runs the check against it and expects a VIOLATION (exit 1). Prints DETECTED / MISSED / BROKEN.
set -u
PATCH=$(realpath $1); PROP=$2; TIER=${3:-quick}
W=$(mktemp -d /tmp/vmut.XXXXXX)
git -C /repo worktree add -q --detach $W HEAD >/dev/null 2>&1 || { echo "BROKEN worktree"; exit 2; }
cleanup() { git -C /repo worktree remove --force $W >/dev/null 2>&1; rm -rf $W; }
trap cleanup EXIT
if ! git -C $W apply $PATCH 2>/dev/null; then echo "BROKEN patch does not apply: $PATCH"; exit 2; fi
V=$(cd "$(dirname "${BASH_SOURCE[0]}")/.." && pwd)
OUT=$(VERIF_REPO=$W $V/check $PROP --tier $TIER 2>&1); RC=$?
# drop the build made for the scratch copy
find $V/out/build -maxdepth 1 -mindepth 1 -type d -mmin -30 | while read d; do grep -q "$W" $d/overlay.json 2>/dev/null && rm -rf $d; done
case $RC in
 1) echo "DETECTED $PROP $(basename $PATCH): $(echo "$OUT" | grep -m1 -A1 VIOLATION | tail -1 | cut -c1-220)";;
 0) echo "MISSED $PROP $(basename $PATCH)"; echo "$OUT" | tail -2;;
 *) echo "BROKEN $PROP $(basename $PATCH) rc=$RC"; echo "$OUT" | tail -15;;
esac
exit $RC
