#!/bin/bash
# Shim conformance: every outcome of a litmus program under the real Go runtime must be among the outcomes
# found by exhaustive exploration of the same (instrumented) source under the controlled scheduler.
set -euo pipefail
export GOFLAGS=-mod=mod GOPROXY=off GOSUMDB=off GOTOOLCHAIN=local
V=$(cd "$(dirname "${BASH_SOURCE[0]}")/.." && pwd)
BIN=$($V/build.sh)
mkdir -p $V/out/litmus
(cd $V/tools && go build -o $V/out/litmus/native ./litmus/native)
$V/out/litmus/native > $V/out/litmus/native.json
$BIN -prop L00 -tier quick -out $V/out/litmus/explored.json
python3 - $V/out/litmus/native.json $V/out/litmus/explored.json <<'PY'
import json,sys
nat=json.load(open(sys.argv[1])); exp={s['name']:s for s in json.load(open(sys.argv[2]))['scenarios']}
bad=0
for name in sorted(nat):
    e=exp.get(name)
    if e is None: print("MISSING",name); bad+=1; continue
    eo=set((e.get('outcomes') or {}).keys()); no=set(nat[name])
    viol=e.get('violations') or []
    status="ok"
    if viol: status="EXPLORATION-FAILED "+viol[0]['msg'][:80]; bad+=1
    elif not no<=eo: status="NATIVE-OUTCOME-NOT-EXPLORED %s"%sorted(no-eo); bad+=1
    elif not e.get('exhaustive'): status="NOT-EXHAUSTIVE"; bad+=1
    print("%-26s native=%d explored=%d execs=%d %s"%(name,len(no),len(eo),e.get('execs',0),status))
print("LITMUS", "CONFORMS" if bad==0 else "DIFFERS", "programs=%d"%len(nat))
sys.exit(1 if bad else 0)
PY
