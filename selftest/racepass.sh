#!/bin/bash
# usage: selftest/racepass.sh [tier] [Cxx ...]
# Data-race pass: every scenario of the given checks (default: all) is explored on the RACE build of the
# instrumenter (vinstr -race: every field / package variable / captured variable / map access of the repository
# reports to the vector-clock race detector in rt/sched/race.go). Prints the racing source-position pairs and
# writes out/race/<id>.json and out/race/ALL.json. Evidence files are not touched.
set -u
V=$(cd "$(dirname "${BASH_SOURCE[0]}")/.." && pwd)
TIER=${1:-quick}; shift || true
PROPS=${*:-$(python3 -c "import json;print(' '.join(k for k,v in json.load(open('$V/props_meta.json')).items() if v.get('claimed')))")}
export VERIF_RACE=1
for p in $PROPS; do
  $V/check $p --tier $TIER 2>&1 | grep -E "^RACE|^racepass|rror" | cut -c1-300
done
python3 - <<PY
import json,glob,os
allr={}
tot=0; acc=0
for f in sorted(glob.glob('$V/out/race/C*.json')):
    d=json.load(open(f)); tot+=d['executions']; acc+=d['accesses_checked']
    for r in d['races']:
        k=(r['kind'],r['a'],r['b'])
        e=allr.setdefault(k,dict(r,count=0,checks=[]))
        e['count']+=r['count']; e['checks'].append(d['property'])
json.dump({'executions':tot,'accesses_checked':acc,'races':sorted(allr.values(),key=lambda r:(r['a'],r['b']))},open('$V/out/race/ALL.json','w'),indent=1)
print('racepass total: executions=%d accesses=%d racing-pairs=%d'%(tot,acc,len(allr)))
PY
