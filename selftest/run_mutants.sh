#!/bin/bash
# usage: selftest/run_mutants.sh [-j N] [Cxx ...]   -- runs every selftest/mutations/<Cxx>-*.diff against its check
cd "$(dirname "${BASH_SOURCE[0]}")/.."
J=3
if [ "${1:-}" = "-j" ]; then J=$2; shift 2; fi
PROPS=${@:-$(ls selftest/mutations | sed 's/-.*//' | sort -u)}
for p in $PROPS; do ls selftest/mutations/$p-*.diff 2>/dev/null | sed "s/^/$p /"; done |
  xargs -P $J -L 1 bash -c 'selftest/mutate.sh $1 $0 2>&1 | head -1 | cut -c1-220'
