#!/bin/bash
# usage: selftest/run_mutants.sh [Cxx ...]   -- runs every selftest/mutations/<Cxx>-*.diff against its check
cd "$(dirname "${BASH_SOURCE[0]}")/.."
PROPS=${@:-$(ls selftest/mutations | sed 's/-.*//' | sort -u)}
for p in $PROPS; do
  for m in selftest/mutations/$p-*.diff; do
    [ -f "$m" ] || continue
    selftest/mutate.sh $m $p 2>&1 | head -1 | cut -c1-220
  done
done
