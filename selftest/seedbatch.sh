#!/bin/bash
# usage: SEED_TAG=-<round> selftest/seedbatch.sh <tag> <j...>   -- confirms and stores the changes delivered in /tmp/seed-j<j>/seedout/ (several batches may run side by side, each with its own tag)
cd /verif
tag=$1; shift
for g in "$@"; do for d in /tmp/seed-j$g/seedout/C*/; do id=$(basename $d); [ -f $d/patch.diff ] || continue; echo "== $id (j$g)"; LASTSEED=/verif/out/last-seed-$tag.patch SEED_TAG=${SEED_TAG:--11} python3 selftest/keepseed.py $d $id 2>&1 | grep -E "CHECK|KEPT|NOT KEPT|DEMO|SUITE|PATCH" | cut -c1-300; done; done
echo ALLDONE
