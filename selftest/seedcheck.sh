#!/bin/bash
# usage: selftest/seedcheck.sh <seedout-dir-of-one-property> <Cxx> [more Cyy ...]
# Confirms an independently written property-breaking change: applies cleanly, builds, the repository's
# own suite passes with it, the demonstration fails with it and passes without it; then runs the given
# checks against the changed tree. Prints one summary line per step.
set -u
export GOFLAGS=-mod=mod GOPROXY=off GOSUMDB=off GOTOOLCHAIN=local
SD=$(realpath $1); shift
V=$(cd "$(dirname "${BASH_SOURCE[0]}")/.." && pwd)
W=$(mktemp -d /tmp/vseed.XXXXXX)
git -C /repo worktree add -q --detach $W HEAD || { echo "BROKEN worktree"; exit 2; }
trap 'git -C /repo worktree remove --force $W >/dev/null 2>&1; rm -rf $W' EXIT
cd $W
git apply $SD/patch.diff 2>/dev/null || git apply --3way $SD/patch.diff 2>/dev/null || patch -p1 -s --fuzz=3 < $SD/patch.diff || { echo "PATCH does-not-apply"; exit 2; }
git diff HEAD > $W/.seed.patch   # the change as it applies to the current tree
echo "PATCH applies ($(git diff --stat | tail -1 | sed 's/^ *//'))"
go build ./... >/dev/null 2>&1 && echo "BUILD ok" || { echo "BUILD fails"; exit 2; }
if go test -vet=off -count=1 ./... >/tmp/vseed.suite.$$ 2>&1; then echo "SUITE passes-with-change"; else echo "SUITE FAILS-with-change"; grep -E "^(FAIL|---)" /tmp/vseed.suite.$$ | head -5; fi
rm -f /tmp/vseed.suite.$$
# demonstration: copy files preserving repo-relative paths
DEMOPKGS=""
if [ -d $SD/demo ]; then
  (cd $SD/demo && find . -type f) | while read f; do mkdir -p $W/$(dirname $f); cp $SD/demo/$f $W/$f; done
  DEMOPKGS=$(cd $SD/demo && find . -name '*.go' -exec dirname {} \; | sort -u | sed 's#^\./#./#')
fi
with=0; without=0
for p in $DEMOPKGS; do
  go test -vet=off -count=1 $p >/dev/null 2>&1 || with=1
done
[ $with -eq 1 ] && echo "DEMO fails-with-change" || echo "DEMO DOES-NOT-FAIL-with-change"
git apply -R $W/.seed.patch
for p in $DEMOPKGS; do
  go test -vet=off -count=1 $p >/dev/null 2>&1 || without=1
done
[ $without -eq 0 ] && echo "DEMO passes-without-change" || echo "DEMO FAILS-without-change"
# back to the changed tree, without the demonstration files
cp $W/.seed.patch /tmp/vseed.patch.$$; git checkout -q -- . ; git clean -fdq
git apply /tmp/vseed.patch.$$; cp /tmp/vseed.patch.$$ ${LASTSEED:-$V/out/last-seed.patch}; rm -f /tmp/vseed.patch.$$
for prop in "$@"; do
  OUT=$(VERIF_REPO=$W $V/check $prop --tier quick 2>&1); RC=$?
  if [ $RC -eq 0 ]; then OUT=$(VERIF_REPO=$W $V/check $prop --tier thorough 2>&1); RC=$?; T=thorough; else T=quick; fi
  case $RC in
    1) echo "CHECK $prop DETECTED ($T): $(echo "$OUT" | grep -m1 -A1 VIOLATION | tail -1 | cut -c1-200)";;
    0) echo "CHECK $prop MISSED (quick+thorough)";;
    *) echo "CHECK $prop BROKEN rc=$RC: $(echo "$OUT" | tail -3 | tr '\n' ' ' | cut -c1-300)";;
  esac
done
find $V/out/build -maxdepth 1 -mindepth 1 -type d | while read d; do grep -q "$W" $d/overlay.json 2>/dev/null && rm -rf $d; done
exit 0
