// Package lit holds litmus programs for the shims: plain Go using sync, channels, time and context.
// The same source is compiled natively (run many times) and through vinstr (explored exhaustively under
// the controlled scheduler); every natively observed outcome must be among the explored ones, and
// deterministic programs must agree exactly.
package lit

import (
	"context"
	"fmt"
	"sort"
	"strings"
	"sync"
	"sync/atomic"
	"time"
)

// Programs maps a name to a litmus program returning its outcome.
var Programs = map[string]func() string{
	"mutex-counter":            mutexCounter,
	"unlocked-order":           unlockedOrder,
	"cond-signal-fifo":         condSignalFIFO,
	"cond-broadcast":           condBroadcast,
	"cond-lost-wakeup-shape":   condLostWakeupShape,
	"chan-unbuffered-rdv":      chanUnbufferedRendezvous,
	"chan-buffered-fifo":       chanBufferedFIFO,
	"chan-close-zero-ok":       chanCloseZeroOK,
	"chan-send-on-closed":      chanSendOnClosed,
	"chan-nil-in-select":       chanNilInSelect,
	"select-two-ready":         selectTwoReady,
	"select-default":           selectDefault,
	"select-send-recv":         selectSendRecv,
	"range-over-chan":          rangeOverChan,
	"timer-order":              timerOrder,
	"timer-stop":               timerStop,
	"after-vs-chan":            afterVsChan,
	"ticker-drops":             tickerDrops,
	"ctx-cancel-propagates":    ctxCancelPropagates,
	"ctx-deadline-err":         ctxDeadlineErr,
	"ctx-parent-deadline-wins": ctxParentDeadlineWins,
	"waitgroup":                waitGroup,
	"once-single":              onceSingle,
	"once-panic":               oncePanic,
	"rwmutex":                  rwMutex,
	"atomic-value":             atomicValue,
	"len-cap-chan":             lenCapChan,
	"close-wakes-all":          closeWakesAll,
	"sleep-order":              sleepOrder,
	"handoff-chain":            handoffChain,
}

func mutexCounter() string {
	var mu sync.Mutex
	n := 0
	var wg sync.WaitGroup
	for i := 0; i < 3; i++ {
		wg.Add(1)
		go func() {
			defer wg.Done()
			mu.Lock()
			v := n
			n = v + 1
			mu.Unlock()
		}()
	}
	wg.Wait()
	return fmt.Sprint(n)
}

func unlockedOrder() string {
	var mu sync.Mutex
	var order []int
	var wg sync.WaitGroup
	for i := 0; i < 3; i++ {
		wg.Add(1)
		go func(i int) {
			defer wg.Done()
			mu.Lock()
			order = append(order, i)
			mu.Unlock()
		}(i)
	}
	wg.Wait()
	return fmt.Sprint(order)
}

func condSignalFIFO() string {
	var mu sync.Mutex
	c := sync.NewCond(&mu)
	ready := 0
	var woke []int
	var wg sync.WaitGroup
	parked := make(chan int, 2)
	for i := 0; i < 2; i++ {
		wg.Add(1)
		go func(i int) {
			defer wg.Done()
			mu.Lock()
			parked <- i
			for ready == 0 {
				c.Wait()
			}
			ready--
			woke = append(woke, i)
			mu.Unlock()
		}(i)
	}
	first := <-parked
	<-parked
	mu.Lock() // both are inside Wait now (they hold mu until Wait releases it)
	ready = 1
	c.Signal()
	mu.Unlock()
	// exactly one wakes; then release the other
	for {
		mu.Lock()
		if len(woke) == 1 {
			mu.Unlock()
			break
		}
		mu.Unlock()
		time.Sleep(time.Millisecond)
	}
	w := woke[0]
	mu.Lock()
	ready = 1
	c.Signal()
	mu.Unlock()
	wg.Wait()
	return fmt.Sprintf("first-parked-woke-first=%v", w == first)
}

func condBroadcast() string {
	var mu sync.Mutex
	c := sync.NewCond(&mu)
	go2 := false
	var wg sync.WaitGroup
	n := 0
	for i := 0; i < 3; i++ {
		wg.Add(1)
		go func() {
			defer wg.Done()
			mu.Lock()
			for !go2 {
				c.Wait()
			}
			n++
			mu.Unlock()
		}()
	}
	mu.Lock()
	go2 = true
	c.Broadcast()
	mu.Unlock()
	wg.Wait()
	return fmt.Sprint(n)
}

// a waiter that tests its condition with `if` may observe a stale wake-up: outcomes differ
func condLostWakeupShape() string {
	var mu sync.Mutex
	c := sync.NewCond(&mu)
	val := 0
	res := make(chan int, 1)
	started := make(chan struct{})
	go func() {
		mu.Lock()
		close(started)
		if val == 0 {
			c.Wait()
		}
		res <- val
		mu.Unlock()
	}()
	<-started
	mu.Lock()
	val = 1
	c.Broadcast()
	mu.Unlock()
	mu.Lock()
	val = 2
	mu.Unlock()
	return fmt.Sprint(<-res)
}

func chanUnbufferedRendezvous() string {
	c := make(chan int)
	var order []string
	var mu sync.Mutex
	done := make(chan struct{})
	go func() {
		v := <-c
		mu.Lock()
		order = append(order, fmt.Sprint("recv", v))
		mu.Unlock()
		close(done)
	}()
	c <- 7
	mu.Lock()
	order = append(order, "sent")
	mu.Unlock()
	<-done
	mu.Lock()
	defer mu.Unlock()
	sort.Strings(order)
	return fmt.Sprint(order)
}

func chanBufferedFIFO() string {
	c := make(chan int, 3)
	c <- 1
	c <- 2
	c <- 3
	select {
	case c <- 4:
		return "buffer-overflow"
	default:
	}
	return fmt.Sprint(<-c, <-c, <-c, len(c), cap(c))
}

func chanCloseZeroOK() string {
	c := make(chan int, 2)
	c <- 5
	close(c)
	a, ok1 := <-c
	b, ok2 := <-c
	return fmt.Sprint(a, ok1, b, ok2)
}

func chanSendOnClosed() (out string) {
	c := make(chan int, 1)
	close(c)
	defer func() {
		if r := recover(); r != nil {
			out = "panic: " + fmt.Sprint(r)
		}
	}()
	c <- 1
	return "no panic"
}

func chanNilInSelect() string {
	var nilc chan int
	c := make(chan int, 1)
	c <- 1
	select {
	case <-nilc:
		return "nil"
	case v := <-c:
		return fmt.Sprint("c", v)
	}
}

func selectTwoReady() string {
	a, b := make(chan int, 1), make(chan int, 1)
	a <- 1
	b <- 2
	select {
	case v := <-a:
		return fmt.Sprint("a", v)
	case v := <-b:
		return fmt.Sprint("b", v)
	}
}

func selectDefault() string {
	a := make(chan int)
	select {
	case <-a:
		return "a"
	default:
		return "default"
	}
}

func selectSendRecv() string {
	in, out := make(chan int, 1), make(chan int, 1)
	in <- 9
	select {
	case v := <-in:
		return fmt.Sprint("recv", v)
	case out <- 3:
		return fmt.Sprint("sent", <-out)
	}
}

func rangeOverChan() string {
	c := make(chan int)
	go func() {
		for i := 0; i < 3; i++ {
			c <- i
		}
		close(c)
	}()
	s := 0
	for v := range c {
		s = s*10 + v + 1
	}
	return fmt.Sprint(s)
}

func timerOrder() string {
	a := time.After(20 * time.Millisecond)
	b := time.After(60 * time.Millisecond)
	var o []string
	for i := 0; i < 2; i++ {
		select {
		case <-a:
			o = append(o, "a")
			a = nil
		case <-b:
			o = append(o, "b")
			b = nil
		}
	}
	return strings.Join(o, "")
}

func timerStop() string {
	t := time.NewTimer(50 * time.Millisecond)
	stopped := t.Stop()
	select {
	case <-t.C:
		return fmt.Sprint("fired", stopped)
	case <-time.After(120 * time.Millisecond):
		return fmt.Sprint("quiet", stopped)
	}
}

func afterVsChan() string {
	c := make(chan int)
	go func() {
		time.Sleep(10 * time.Millisecond)
		c <- 1
	}()
	select {
	case <-c:
		return "chan"
	case <-time.After(200 * time.Millisecond):
		return "timeout"
	}
}

func tickerDrops() string {
	t := time.NewTicker(10 * time.Millisecond)
	time.Sleep(55 * time.Millisecond)
	t.Stop()
	n := 0
	for {
		select {
		case <-t.C:
			n++
			continue
		default:
		}
		break
	}
	return fmt.Sprint("buffered=", n) // the channel has capacity 1: ticks are dropped while nobody reads
}

func ctxCancelPropagates() string {
	parent, cancel := context.WithCancel(context.Background())
	child, cancel2 := context.WithCancel(parent)
	defer cancel2()
	grand := context.WithValue(child, struct{}{}, 1)
	cancel()
	<-grand.Done()
	return fmt.Sprint(parent.Err(), "|", child.Err(), "|", grand.Err())
}

func ctxDeadlineErr() string {
	ctx, cancel := context.WithTimeout(context.Background(), 20*time.Millisecond)
	defer cancel()
	select {
	case <-ctx.Done():
		return fmt.Sprint(ctx.Err())
	case <-time.After(500 * time.Millisecond):
		return "no deadline"
	}
}

func ctxParentDeadlineWins() string {
	p, c1 := context.WithTimeout(context.Background(), 20*time.Millisecond)
	defer c1()
	c, c2 := context.WithTimeout(p, 10*time.Second)
	defer c2()
	d1, _ := p.Deadline()
	d2, _ := c.Deadline()
	<-c.Done()
	return fmt.Sprint(d1.Equal(d2), c.Err())
}

func waitGroup() string {
	var wg sync.WaitGroup
	var n int32
	for i := 0; i < 4; i++ {
		wg.Add(1)
		go func() { atomic.AddInt32(&n, 1); wg.Done() }()
	}
	wg.Wait()
	return fmt.Sprint(atomic.LoadInt32(&n))
}

func onceSingle() string {
	var o sync.Once
	var n int32
	var wg sync.WaitGroup
	for i := 0; i < 3; i++ {
		wg.Add(1)
		go func() { defer wg.Done(); o.Do(func() { atomic.AddInt32(&n, 1) }) }()
	}
	wg.Wait()
	return fmt.Sprint(n)
}

func oncePanic() string {
	var o sync.Once
	func() {
		defer func() { recover() }()
		o.Do(func() { panic("x") })
	}()
	ran := false
	o.Do(func() { ran = true })
	return fmt.Sprint("second-ran=", ran)
}

func rwMutex() string {
	var mu sync.RWMutex
	x := 0
	var wg sync.WaitGroup
	var seen [2]int
	for i := 0; i < 2; i++ {
		wg.Add(1)
		go func(i int) { defer wg.Done(); mu.RLock(); seen[i] = x; mu.RUnlock() }(i)
	}
	wg.Add(1)
	go func() { defer wg.Done(); mu.Lock(); x = 1; mu.Unlock() }()
	wg.Wait()
	return fmt.Sprint(seen[0], seen[1], x)
}

func atomicValue() string {
	var v atomic.Value
	if v.Load() != nil {
		return "not nil"
	}
	v.Store(true)
	return fmt.Sprint(v.Load())
}

func lenCapChan() string {
	c := make(chan int, 4)
	c <- 1
	c <- 2
	return fmt.Sprint(len(c), cap(c))
}

func closeWakesAll() string {
	c := make(chan struct{})
	var wg sync.WaitGroup
	var n int32
	for i := 0; i < 3; i++ {
		wg.Add(1)
		go func() { defer wg.Done(); <-c; atomic.AddInt32(&n, 1) }()
	}
	close(c)
	wg.Wait()
	return fmt.Sprint(n)
}

func sleepOrder() string {
	var mu sync.Mutex
	var o []int
	var wg sync.WaitGroup
	for _, d := range []int{60, 20, 40} {
		wg.Add(1)
		go func(d int) {
			defer wg.Done()
			time.Sleep(time.Duration(d) * time.Millisecond)
			mu.Lock()
			o = append(o, d)
			mu.Unlock()
		}(d)
	}
	wg.Wait()
	return fmt.Sprint(o)
}

func handoffChain() string {
	a, b, c := make(chan int), make(chan int), make(chan int)
	go func() { b <- (<-a) + 1 }()
	go func() { c <- (<-b) * 2 }()
	a <- 1
	return fmt.Sprint(<-c)
}
