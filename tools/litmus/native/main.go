// native runs every litmus program many times with the real Go runtime and prints the outcome sets.
package main

import (
	"encoding/json"
	"fmt"
	"os"
	"sort"
	"sync"

	"verif/tools/litmus/lit"
)

func main() {
	runs := 400
	out := map[string][]string{}
	var names []string
	for n := range lit.Programs {
		names = append(names, n)
	}
	sort.Strings(names)
	for _, n := range names {
		seen := map[string]bool{}
		var mu sync.Mutex
		var wg sync.WaitGroup
		sem := make(chan struct{}, 16)
		for i := 0; i < runs; i++ {
			wg.Add(1)
			sem <- struct{}{}
			go func() {
				defer wg.Done()
				defer func() { <-sem }()
				r := lit.Programs[n]()
				mu.Lock()
				seen[r] = true
				mu.Unlock()
			}()
		}
		wg.Wait()
		for k := range seen {
			out[n] = append(out[n], k)
		}
		sort.Strings(out[n])
	}
	b, _ := json.MarshalIndent(out, "", " ")
	fmt.Fprintln(os.Stdout, string(b))
}
