package main

import (
	"fmt"
	"go/ast"
	"go/token"
	"go/types"
	"os"
	"path/filepath"
	"strings"
)

// Race build (`vinstr -race`): every access of the repository's code to
//   - an addressable struct field            x.f            -> (*_vsched.R(&x.f, pos)) / (*_vsched.W(&x.f, pos))
//   - a package-level variable of the module V, pkg.V       -> (*_vsched.R(&V, pos))   / ...
//   - a local variable captured by a closure v              -> (*_vsched.R(&v, pos))   / ...
//   - a map (lookup, store, delete, len, range) m[k]        -> _vsched.MR(m, pos)[k]   / _vsched.MW(m, pos)[k] = ...
// is reported to the scheduler's vector-clock race detector. A selector that is only the base of a further
// field selection of a struct value (a.b in a.b.c) or the operand of & is address arithmetic, not an access.

var raceMode bool

// racySites is the committed list of accesses found racing by the race pass (racy_sites.txt, one stable key
// "dir/file.go Func expr" per line). In the NORMAL build these accesses become scheduling points (RY / WY /
// MRY / MWY) so that the exploration interleaves other threads between a racy access and the visible
// operations around it; map accesses are always reported (an unordered map write is a crash in Go).
var racySites = map[string]bool{}

func loadRacySites(path string) {
	b, err := os.ReadFile(path)
	if err != nil {
		return
	}
	for _, l := range strings.Split(string(b), "\n") {
		l = strings.TrimSpace(l)
		if l != "" && !strings.HasPrefix(l, "#") {
			racySites[l] = true
		}
	}
}

type raceSite struct {
	pos string // "dir/file.go:line Func expr"
	key string // "dir/file.go Func expr"
}

type funcSpan struct {
	pos, end token.Pos
}

func (c *fileCtx) classifyRace() {
	c.raceAcc = map[ast.Expr]byte{}
	c.raceMap = map[ast.Expr]byte{}
	c.raceSite = map[ast.Expr]raceSite{}
	info := c.info
	var funcs []funcSpan
	type declSpan struct {
		pos, end token.Pos
		name     string
	}
	var decls []declSpan
	ast.Inspect(c.file, func(n ast.Node) bool {
		switch n := n.(type) {
		case *ast.FuncDecl:
			decls = append(decls, declSpan{n.Pos(), n.End(), n.Name.Name})
			funcs = append(funcs, funcSpan{n.Pos(), n.End()})
		case *ast.FuncLit:
			funcs = append(funcs, funcSpan{n.Pos(), n.End()})
		}
		return true
	})
	funcOf := func(p token.Pos) int {
		best := -1
		for i, f := range funcs {
			if f.pos <= p && p < f.end && (best < 0 || f.end-f.pos < funcs[best].end-funcs[best].pos) {
				best = i
			}
		}
		return best
	}
	isLocal := func(v *types.Var) bool {
		return v != nil && !v.IsField() && v.Pkg() != nil && v.Parent() != nil && v.Parent() != v.Pkg().Scope() && v.Parent() != types.Universe
	}
	// pass 1: captured locals
	captured := map[*types.Var]bool{}
	ast.Inspect(c.file, func(n ast.Node) bool {
		id, ok := n.(*ast.Ident)
		if !ok {
			return true
		}
		v, _ := info.Uses[id].(*types.Var)
		if !isLocal(v) {
			return true
		}
		if v.Pos() < c.file.Pos() || v.Pos() >= c.file.End() {
			return true
		}
		if funcOf(v.Pos()) != funcOf(id.Pos()) {
			captured[v] = true
		}
		return true
	})
	isPkgVar := func(o types.Object) bool {
		v, ok := o.(*types.Var)
		return ok && !v.IsField() && v.Pkg() != nil && v.Parent() == v.Pkg().Scope() && strings.HasPrefix(v.Pkg().Path(), "go.amzn.com")
	}
	isStructVal := func(t types.Type) bool {
		if t == nil {
			return false
		}
		switch t.Underlying().(type) {
		case *types.Struct, *types.Array:
			return true
		}
		return false
	}
	isMap := func(t types.Type) bool {
		if t == nil {
			return false
		}
		_, ok := t.Underlying().(*types.Map)
		return ok
	}
	site := func(e ast.Expr) {
		at := e.Pos()
		if se, ok := e.(*ast.SelectorExpr); ok {
			at = se.Sel.Pos()
		}
		fn := "-"
		for _, d := range decls {
			if d.pos <= at && at < d.end {
				fn = d.name
			}
		}
		file := filepath.Base(filepath.Dir(c.rel)) + "/" + filepath.Base(c.rel)
		txt := types.ExprString(e)
		if len(txt) > 60 {
			txt = txt[:60]
		}
		txt = strings.Join(strings.Fields(txt), "")
		c.raceSite[e] = raceSite{pos: fmt.Sprintf("%s:%d %s %s", file, c.fset.Position(at).Line, fn, txt), key: fmt.Sprintf("%s %s %s", file, fn, txt)}
	}
	var stack []ast.Node
	// mode of the expression e given its syntactic context: 0 = not an access, 'r', 'w'
	modeOf := func(e ast.Expr) byte {
		child := ast.Node(e)
		i := len(stack) - 2
		for i >= 0 {
			if p, ok := stack[i].(*ast.ParenExpr); ok {
				child = p
				i--
				continue
			}
			break
		}
		if i < 0 {
			return 'r'
		}
		switch p := stack[i].(type) {
		case *ast.UnaryExpr:
			if p.Op == token.AND {
				return 0
			}
		case *ast.SelectorExpr:
			if p.X == child && isStructVal(info.TypeOf(e)) {
				return 0
			}
		case *ast.IndexExpr:
			if p.X == child {
				if _, ok := info.TypeOf(e).Underlying().(*types.Array); ok {
					return 0
				}
			}
		case *ast.SliceExpr:
			if p.X == child {
				if _, ok := info.TypeOf(e).Underlying().(*types.Array); ok {
					return 0
				}
			}
		case *ast.AssignStmt:
			for _, l := range p.Lhs {
				if l == child {
					if p.Tok == token.DEFINE {
						return 0
					}
					return 'w'
				}
			}
		case *ast.IncDecStmt:
			if p.X == child {
				return 'w'
			}
		case *ast.RangeStmt:
			if p.Key == child || p.Value == child {
				if p.Tok == token.DEFINE {
					return 0
				}
				return 'w'
			}
		}
		return 'r'
	}
	ast.Inspect(c.file, func(n ast.Node) bool {
		if n == nil {
			stack = stack[:len(stack)-1]
			return true
		}
		stack = append(stack, n)
		switch n := n.(type) {
		case *ast.SelectorExpr:
			if s := info.Selections[n]; s != nil {
				if s.Kind() == types.FieldVal && info.Types[n].Addressable() {
					if m := modeOf(n); m != 0 {
						c.raceAcc[n] = m
						site(n)
					}
				}
			} else if isPkgVar(info.Uses[n.Sel]) {
				if m := modeOf(n); m != 0 {
					c.raceAcc[n] = m
					site(n)
				}
			}
		case *ast.Ident:
			if len(stack) >= 2 {
				if p, ok := stack[len(stack)-2].(*ast.SelectorExpr); ok && p.Sel == n {
					return true
				}
			}
			o := info.Uses[n]
			if v, _ := o.(*types.Var); (isLocal(v) && captured[v]) || isPkgVar(o) {
				if m := modeOf(n); m != 0 {
					c.raceAcc[n] = m
					site(n)
				}
			}
		case *ast.IndexExpr:
			if isMap(info.TypeOf(n.X)) {
				m := modeOf(n)
				if m == 0 {
					m = 'r'
				}
				c.raceMap[ast.Unparen(n.X)] = m
				site(ast.Unparen(n.X))
			}
		case *ast.RangeStmt:
			if isMap(info.TypeOf(n.X)) {
				c.raceMap[ast.Unparen(n.X)] = 'r'
				site(ast.Unparen(n.X))
			}
		case *ast.CallExpr:
			if id, ok := n.Fun.(*ast.Ident); ok {
				if _, isB := info.Uses[id].(*types.Builtin); isB && len(n.Args) >= 1 && isMap(info.TypeOf(n.Args[0])) {
					switch id.Name {
					case "delete", "clear":
						c.raceMap[ast.Unparen(n.Args[0])] = 'w'
						site(ast.Unparen(n.Args[0]))
					case "len":
						c.raceMap[ast.Unparen(n.Args[0])] = 'r'
						site(ast.Unparen(n.Args[0]))
					}
				}
			}
		}
		return true
	})
}

// raceWrap returns the replacement of expression n (already rewritten below) or nil. Every classified access is
// wrapped (R / W / MR / MW) in both builds; rt/sched/race.go decides at run time what a wrapper does (report only
// in the race build; detect, and yield first at the active racy sites, in the normal build).
func (c *fileCtx) raceWrap(n ast.Expr) ast.Expr {
	acc, am := c.raceAcc[n]
	mp, mm := c.raceMap[n]
	if !am && !mm {
		return nil
	}
	st := c.raceSite[n]
	pos := &ast.BasicLit{Kind: token.STRING, Value: fmt.Sprintf("%q", st.pos)}
	var out ast.Expr = n
	if am {
		fn := "R"
		if acc == 'w' {
			fn = "W"
		}
		out = &ast.ParenExpr{X: &ast.StarExpr{X: call(sel("_vsched", fn), &ast.UnaryExpr{Op: token.AND, X: n}, pos)}}
	}
	if mm {
		fn := "MR"
		if mp == 'w' {
			fn = "MW"
		}
		out = call(sel("_vsched", fn), out, pos)
	}
	c.needSch = true
	return out
}
