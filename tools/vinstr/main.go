// vinstr: source-to-source instrumenter. It rewrites every non-test Go file of the repository so
// that goroutines, channel operations, sync/atomic/time/context primitives go through the shims in
// /verif/rt, and writes a `go build -overlay` file that also maps the shim, harness and entry
// packages into module go.amzn.com. /repo itself is never modified.
package main

import (
	"bytes"
	"encoding/json"
	"flag"
	"fmt"
	"go/ast"
	"go/format"
	"go/token"
	"go/types"
	"os"
	"path/filepath"
	"sort"
	"strings"

	"golang.org/x/tools/go/ast/astutil"
	"golang.org/x/tools/go/packages"
)

const rtPrefix = "go.amzn.com/verifrt/"

var importMap = map[string]string{
	"sync":        rtPrefix + "vsync",
	"sync/atomic": rtPrefix + "vatomic",
	"time":        rtPrefix + "vtime",
	"context":     rtPrefix + "vcontext",
	"os/signal":   rtPrefix + "vsignal",
}

// file-specific import rewrites (suffix of the file path -> import path -> shim)
var fileImportMap = map[string]map[string]string{
	"lambda/supervisor/local_supervisor.go": {"os/exec": rtPrefix + "vexec", "syscall": rtPrefix + "vsyscall"},
	"lambda/rapi/server.go":                 {"net": rtPrefix + "vnet"},
}

var defaultName = map[string]string{
	"sync": "sync", "sync/atomic": "atomic", "time": "time", "context": "context", "os/signal": "signal",
	"os/exec": "exec", "syscall": "syscall", "net": "net",
}

type fileCtx struct {
	fset     *token.FileSet
	info     *types.Info
	file     *ast.File
	rel      string
	needChan bool
	needSch  bool
	needSort bool
	counter  int
	skip     map[ast.Node]bool // comm operations of select clauses
	chanRng  map[*ast.RangeStmt]bool
	mapRng   map[*ast.RangeStmt]bool
	chanLen  map[*ast.CallExpr]string
	isClose  map[*ast.CallExpr]bool
	constArg map[ast.Expr]bool
	labeled  map[ast.Stmt]bool
	racy     map[string]bool
	raceAcc  map[ast.Expr]byte // race build: field / variable accesses to report ('r' / 'w')
	raceMap  map[ast.Expr]byte // race build: map operands to report
	raceSite map[ast.Expr]raceSite
}

func main() {
	repo := flag.String("repo", "/repo", "repository root")
	verif := flag.String("verif", "/verif", "verification root")
	out := flag.String("out", "", "output directory (generated sources + overlay.json)")
	flag.StringVar(&extraDir, "extra", "", "directory of an extra package to instrument and map into the module as go.amzn.com/veriflit")
	flag.BoolVar(&raceMode, "race", false, "race build: report field, package variable, captured variable and map accesses to the scheduler's race detector")
	flag.Parse()
	if *out == "" {
		fmt.Fprintln(os.Stderr, "vinstr: -out required")
		os.Exit(2)
	}
	loadRacySites(filepath.Join(*verif, "racy_sites.txt"))
	if err := run(*repo, *verif, *out); err != nil {
		fmt.Fprintln(os.Stderr, "vinstr:", err)
		os.Exit(2)
	}
}

var extraDir string

func run(repo, verif, out string) error {
	cfg := &packages.Config{
		Mode: packages.NeedName | packages.NeedFiles | packages.NeedCompiledGoFiles | packages.NeedSyntax |
			packages.NeedTypes | packages.NeedTypesInfo | packages.NeedImports,
		Dir:   repo,
		Tests: false,
		Env:   append(os.Environ(), "GOFLAGS=-mod=mod", "GOPROXY=off", "GOSUMDB=off", "GOTOOLCHAIN=local"),
	}
	patterns := []string{"./lambda/...", "./cmd/..."}
	if extraDir != "" {
		// the extra package exists only in the overlay, as <repo>/veriflit
		cfg.Overlay = map[string][]byte{}
		ents, err := os.ReadDir(extraDir)
		if err != nil {
			return err
		}
		for _, e := range ents {
			if strings.HasSuffix(e.Name(), ".go") && !strings.HasSuffix(e.Name(), "_test.go") {
				b, err := os.ReadFile(filepath.Join(extraDir, e.Name()))
				if err != nil {
					return err
				}
				cfg.Overlay[filepath.Join(repo, "veriflit", e.Name())] = b
			}
		}
		patterns = append(patterns, "./veriflit")
	}
	pkgs, err := packages.Load(cfg, patterns...)
	if err != nil {
		return err
	}
	overlay := map[string]string{}
	gen := filepath.Join(out, "gen")
	if err := os.RemoveAll(gen); err != nil {
		return err
	}
	nfiles := 0
	for _, p := range pkgs {
		if len(p.Errors) > 0 {
			return fmt.Errorf("package %s: %v", p.PkgPath, p.Errors[0])
		}
		if err := genGlobalsSaver(p, repo, gen, overlay); err != nil {
			return err
		}
		for i, f := range p.Syntax {
			path := p.CompiledGoFiles[i]
			if !strings.HasPrefix(path, repo+"/") {
				continue
			}
			rel := strings.TrimPrefix(path, repo+"/")
			if strings.HasSuffix(rel, "_test.go") {
				continue
			}
			src, err := instrument(p.Fset, p.TypesInfo, f, rel)
			if err != nil {
				return fmt.Errorf("%s: %v", rel, err)
			}
			dst := filepath.Join(gen, rel)
			if err := os.MkdirAll(filepath.Dir(dst), 0o755); err != nil {
				return err
			}
			if err := os.WriteFile(dst, src, 0o644); err != nil {
				return err
			}
			overlay[path] = dst
			nfiles++
		}
	}
	// virtual packages: /verif/rt/X -> go.amzn.com/verifrt/X ; /verif/harness/X -> go.amzn.com/verifh/X
	addTree := func(srcRoot, dstRoot string) error {
		return filepath.Walk(srcRoot, func(p string, fi os.FileInfo, err error) error {
			if err != nil {
				if os.IsNotExist(err) {
					return nil
				}
				return err
			}
			if fi.IsDir() || !strings.HasSuffix(p, ".go") {
				return nil
			}
			rel, _ := filepath.Rel(srcRoot, p)
			overlay[filepath.Join(dstRoot, rel)] = p
			return nil
		})
	}
	if err := addTree(filepath.Join(verif, "rt"), filepath.Join(repo, "verifrt")); err != nil {
		return err
	}
	if err := addTree(filepath.Join(verif, "harness"), filepath.Join(repo, "verifh")); err != nil {
		return err
	}
	// build mode constant of the scheduler package
	modeFile := filepath.Join(gen, "verifrt_sched_zz_mode.go")
	var keys []string
	for k := range racySites {
		keys = append(keys, k)
	}
	sort.Strings(keys)
	var lit strings.Builder
	for _, k := range keys {
		fmt.Fprintf(&lit, "\t%q: true,\n", k)
	}
	modeSrc := fmt.Sprintf("package sched\n\n// RaceBuild: the race detector only reports (vinstr -race); otherwise racing accesses become scheduling points.\nconst RaceBuild = %v\n\n// StaticRacy is racy_sites.txt at build time.\nvar StaticRacy = map[string]bool{\n%s}\n\nfunc init() {\n\tfor k := range StaticRacy {\n\t\tRacyActive[k] = true\n\t}\n}\n", raceMode, lit.String())
	if err := os.WriteFile(modeFile, []byte(modeSrc), 0o644); err != nil {
		return err
	}
	overlay[filepath.Join(repo, "verifrt", "sched", "zz_mode.go")] = modeFile
	// entry files: /verif/entry/<repo-relative dir>/<file>.go are added into repo packages
	if err := addTree(filepath.Join(verif, "entry"), repo); err != nil {
		return err
	}
	// the test binary is built from cmd/aws-lambda-rie: drop the repository's own test files there
	matches, _ := filepath.Glob(filepath.Join(repo, "cmd/aws-lambda-rie/*_test.go"))
	for _, m := range matches {
		if _, mine := overlay[m]; !mine {
			overlay[m] = ""
		}
	}
	b, _ := json.MarshalIndent(map[string]any{"Replace": overlay}, "", " ")
	if err := os.WriteFile(filepath.Join(out, "overlay.json"), b, 0o644); err != nil {
		return err
	}
	fmt.Printf("vinstr: %d files instrumented, overlay %s\n", nfiles, filepath.Join(out, "overlay.json"))
	return nil
}

func ident(s string) *ast.Ident { return ast.NewIdent(s) }

func sel(pkg, name string) ast.Expr { return &ast.SelectorExpr{X: ident(pkg), Sel: ident(name)} }

func call(fn ast.Expr, args ...ast.Expr) *ast.CallExpr { return &ast.CallExpr{Fun: fn, Args: args} }

func (c *fileCtx) tmp(prefix string) string {
	c.counter++
	return fmt.Sprintf("_v%s%d", prefix, c.counter)
}

func isChan(t types.Type) bool {
	if t == nil {
		return false
	}
	_, ok := t.Underlying().(*types.Chan)
	return ok
}

func sortableMap(t types.Type) bool {
	if t == nil {
		return false
	}
	m, ok := t.Underlying().(*types.Map)
	if !ok {
		return false
	}
	b, ok := m.Key().Underlying().(*types.Basic)
	if !ok {
		return false
	}
	return b.Info()&(types.IsString|types.IsInteger) != 0
}

func instrument(fset *token.FileSet, info *types.Info, f *ast.File, rel string) ([]byte, error) {
	c := &fileCtx{fset: fset, info: info, file: f, rel: rel,
		skip: map[ast.Node]bool{}, chanRng: map[*ast.RangeStmt]bool{}, mapRng: map[*ast.RangeStmt]bool{},
		chanLen: map[*ast.CallExpr]string{}, isClose: map[*ast.CallExpr]bool{}, constArg: map[ast.Expr]bool{},
		labeled: map[ast.Stmt]bool{}}

	// imports
	fmap := map[string]string{}
	for k, v := range importMap {
		fmap[k] = v
	}
	for suffix, m := range fileImportMap {
		if strings.HasSuffix(rel, suffix) {
			for k, v := range m {
				fmap[k] = v
			}
		}
	}
	for _, im := range f.Imports {
		p := strings.Trim(im.Path.Value, "\"")
		if np, ok := fmap[p]; ok {
			im.Path.Value = "\"" + np + "\""
			im.Path.ValuePos = token.NoPos
			if im.Name == nil {
				im.Name = ident(defaultName[p])
			}
		}
	}

	// classification pass (uses type information of the original tree)
	var err error
	ast.Inspect(f, func(n ast.Node) bool {
		switch n := n.(type) {
		case *ast.LabeledStmt:
			c.labeled[n.Stmt] = true
		case *ast.SelectStmt:
			for _, cl := range n.Body.List {
				cc := cl.(*ast.CommClause)
				switch s := cc.Comm.(type) {
				case *ast.SendStmt:
					c.skip[s] = true
				case *ast.ExprStmt:
					c.skip[ast.Unparen(s.X)] = true
				case *ast.AssignStmt:
					c.skip[ast.Unparen(s.Rhs[0])] = true
				}
			}
		case *ast.RangeStmt:
			t := info.TypeOf(n.X)
			if isChan(t) {
				c.chanRng[n] = true
			} else if sortableMap(t) {
				c.mapRng[n] = true
			}
		case *ast.CallExpr:
			if id, ok := n.Fun.(*ast.Ident); ok {
				if _, isB := info.Uses[id].(*types.Builtin); isB {
					switch id.Name {
					case "close":
						c.isClose[n] = true
					case "len", "cap":
						if len(n.Args) == 1 && isChan(info.TypeOf(n.Args[0])) {
							c.chanLen[n] = id.Name
						}
					}
				}
			}
		case *ast.GoStmt:
			for _, a := range n.Call.Args {
				tv, ok := info.Types[a]
				if ok && (tv.Value != nil || tv.IsNil()) {
					c.constArg[a] = true
				}
			}
		case *ast.FuncDecl:
			if n.Body == nil && n.Name.Name == "Monotime" {
				n.Body = &ast.BlockStmt{List: []ast.Stmt{&ast.ReturnStmt{Results: []ast.Expr{call(sel("time", "Mono"))}}}}
			}
		}
		return true
	})

	if strings.HasPrefix(rel, "lambda/") || strings.HasPrefix(rel, "cmd/") {
		c.classifyRace()
	}
	res := astutil.Apply(f, nil, func(cur *astutil.Cursor) bool {
		if err != nil {
			return false
		}
		if c.raceAcc != nil {
			if ex, ok := cur.Node().(ast.Expr); ok {
				if r := c.raceWrap(ex); r != nil {
					delete(c.raceAcc, ex)
					delete(c.raceMap, ex)
					cur.Replace(r)
					return true
				}
			}
		}
		switch n := cur.Node().(type) {
		case *ast.UnaryExpr:
			if n.Op == token.ARROW && !c.skip[n] {
				c.needChan = true
				fn := "Recv"
				// v, ok := <-c  (assignment or var decl with two lhs)
				switch p := cur.Parent().(type) {
				case *ast.AssignStmt:
					if len(p.Lhs) == 2 && len(p.Rhs) == 1 {
						fn = "Recv2"
					}
				case *ast.ValueSpec:
					if len(p.Names) == 2 && len(p.Values) == 1 {
						fn = "Recv2"
					}
				}
				cur.Replace(call(sel("_vchan", fn), n.X))
			}
		case *ast.SendStmt:
			if !c.skip[n] {
				c.needChan = true
				cur.Replace(&ast.ExprStmt{X: call(sel("_vchan", "Send"), n.Chan, n.Value)})
			}
		case *ast.CallExpr:
			if c.isClose[n] {
				c.needChan = true
				n.Fun = sel("_vchan", "Close")
			} else if k := c.chanLen[n]; k != "" {
				c.needChan = true
				if k == "len" {
					n.Fun = sel("_vchan", "Len")
				} else {
					n.Fun = sel("_vchan", "Cap")
				}
			}
		case *ast.GoStmt:
			cur.Replace(c.rewriteGo(n))
		case *ast.SelectStmt:
			r, e := c.rewriteSelect(n)
			if e != nil {
				err = e
				return false
			}
			if c.labeled[n] {
				// L: select {...}  becomes  L: for { temporaries; switch {...}; break }
				// so that both `break L` and `goto L` keep their meaning
				// (the for form only when `break L` occurs: a labeled block keeps the statement terminating)
				usesBreak := false
				if ls, ok := cur.Parent().(*ast.LabeledStmt); ok {
					ast.Inspect(n, func(x ast.Node) bool {
						if b, ok := x.(*ast.BranchStmt); ok && b.Tok == token.BREAK && b.Label != nil && b.Label.Name == ls.Label.Name {
							usesBreak = true
						}
						return true
					})
				}
				if usesBreak {
					blk := r.(*ast.BlockStmt)
					blk.List = append(blk.List, &ast.BranchStmt{Tok: token.BREAK})
					r = &ast.ForStmt{Body: blk}
				}
			}
			cur.Replace(r)
		case *ast.RangeStmt:
			if c.chanRng[n] {
				r, e := c.rewriteChanRange(n)
				if e != nil {
					err = e
					return false
				}
				cur.Replace(r)
			} else if c.mapRng[n] && !c.labeled[n] {
				if r := c.rewriteMapRange(n); r != nil {
					cur.Replace(r)
				}
			}
		}
		return true
	})
	if err != nil {
		return nil, err
	}
	f = res.(*ast.File)

	// drop comments (positions of rewritten nodes would misplace them) except the file header
	var keep []*ast.CommentGroup
	for _, cg := range f.Comments {
		if cg.End() < f.Package {
			keep = append(keep, cg)
		}
	}
	f.Comments = keep
	ast.Inspect(f, func(n ast.Node) bool {
		switch n := n.(type) {
		case *ast.FuncDecl:
			n.Doc = nil
		case *ast.GenDecl:
			n.Doc = nil
		case *ast.Field:
			n.Doc, n.Comment = nil, nil
		case *ast.ValueSpec:
			n.Doc, n.Comment = nil, nil
		case *ast.TypeSpec:
			n.Doc, n.Comment = nil, nil
		case *ast.ImportSpec:
			n.Doc, n.Comment = nil, nil
		}
		return true
	})

	if c.needChan {
		astutil.AddNamedImport(fset, f, "_vchan", rtPrefix+"vchan")
	}
	if c.needSch {
		astutil.AddNamedImport(fset, f, "_vsched", rtPrefix+"sched")
	}
	if c.needSort {
		astutil.AddNamedImport(fset, f, "_vsort", rtPrefix+"vsort")
	}
	var buf bytes.Buffer
	if e := format.Node(&buf, fset, f); e != nil {
		return nil, e
	}
	// re-format from text to normalise whatever the printer did with position-less nodes
	outSrc, e := format.Source(buf.Bytes())
	if e != nil {
		return nil, fmt.Errorf("generated source does not parse: %v\n%s", e, buf.String())
	}
	hdr := fmt.Sprintf("// Code generated by vinstr from %s; DO NOT EDIT.\n", rel)
	return append([]byte(hdr), outSrc...), nil
}

func (c *fileCtx) rewriteGo(g *ast.GoStmt) ast.Stmt {
	c.needSch = true
	pos := c.fset.Position(g.Pos())
	name := fmt.Sprintf("%s:%d", filepath.Base(pos.Filename), pos.Line)
	var pre []ast.Stmt
	callExpr := &ast.CallExpr{Ellipsis: g.Call.Ellipsis}
	if fl, ok := g.Call.Fun.(*ast.FuncLit); ok {
		callExpr.Fun = fl
	} else {
		t := c.tmp("gf")
		pre = append(pre, &ast.AssignStmt{Lhs: []ast.Expr{ident(t)}, Tok: token.DEFINE, Rhs: []ast.Expr{g.Call.Fun}})
		callExpr.Fun = ident(t)
	}
	for _, a := range g.Call.Args {
		if c.constArg[a] {
			callExpr.Args = append(callExpr.Args, a)
			continue
		}
		t := c.tmp("ga")
		pre = append(pre, &ast.AssignStmt{Lhs: []ast.Expr{ident(t)}, Tok: token.DEFINE, Rhs: []ast.Expr{a}})
		callExpr.Args = append(callExpr.Args, ident(t))
	}
	if callExpr.Ellipsis != token.NoPos {
		callExpr.Ellipsis = token.Pos(1)
	}
	body := &ast.FuncLit{Type: &ast.FuncType{Params: &ast.FieldList{}}, Body: &ast.BlockStmt{List: []ast.Stmt{&ast.ExprStmt{X: callExpr}}}}
	spawn := &ast.ExprStmt{X: call(sel("_vsched", "GoRepo"), &ast.BasicLit{Kind: token.STRING, Value: fmt.Sprintf("%q", name)}, body)}
	if len(pre) == 0 {
		return spawn
	}
	return &ast.BlockStmt{List: append(pre, spawn)}
}

func (c *fileCtx) rewriteSelect(s *ast.SelectStmt) (ast.Stmt, error) {
	c.needChan = true
	var pre []ast.Stmt
	var cases []ast.Expr
	hasDefault := false
	sw := &ast.SwitchStmt{Body: &ast.BlockStmt{}}
	idx := 0
	for _, cl := range s.Body.List {
		cc := cl.(*ast.CommClause)
		if cc.Comm == nil {
			hasDefault = true
			sw.Body.List = append(sw.Body.List, &ast.CaseClause{List: []ast.Expr{&ast.BasicLit{Kind: token.INT, Value: "-1"}}, Body: cc.Body})
			continue
		}
		lit := &ast.BasicLit{Kind: token.INT, Value: fmt.Sprint(idx)}
		idx++
		switch st := cc.Comm.(type) {
		case *ast.SendStmt:
			tc, tv := c.tmp("sc"), c.tmp("sv")
			pre = append(pre, &ast.AssignStmt{Lhs: []ast.Expr{ident(tc)}, Tok: token.DEFINE, Rhs: []ast.Expr{st.Chan}})
			// the value keeps its position in the S(...) call so that untyped constants take the element type
			_ = tv
			cases = append(cases, call(sel("_vchan", "S"), ident(tc), st.Value))
			sw.Body.List = append(sw.Body.List, &ast.CaseClause{List: []ast.Expr{lit}, Body: cc.Body})
		case *ast.ExprStmt:
			u, ok := ast.Unparen(st.X).(*ast.UnaryExpr)
			if !ok || u.Op != token.ARROW {
				return nil, fmt.Errorf("unexpected select comm expr")
			}
			tc := c.tmp("rc")
			pre = append(pre, &ast.AssignStmt{Lhs: []ast.Expr{ident(tc)}, Tok: token.DEFINE, Rhs: []ast.Expr{u.X}})
			cases = append(cases, call(sel("_vchan", "R"), ident(tc)))
			sw.Body.List = append(sw.Body.List, &ast.CaseClause{List: []ast.Expr{lit}, Body: cc.Body})
		case *ast.AssignStmt:
			u, ok := ast.Unparen(st.Rhs[0]).(*ast.UnaryExpr)
			if !ok || u.Op != token.ARROW {
				return nil, fmt.Errorf("unexpected select comm assignment")
			}
			tc := c.tmp("rc")
			pre = append(pre, &ast.AssignStmt{Lhs: []ast.Expr{ident(tc)}, Tok: token.DEFINE, Rhs: []ast.Expr{u.X}})
			cases = append(cases, call(sel("_vchan", "R"), ident(tc)))
			fn := "Taken"
			if len(st.Lhs) == 2 {
				fn = "Taken2"
			}
			bind := &ast.AssignStmt{Lhs: st.Lhs, Tok: st.Tok, Rhs: []ast.Expr{call(sel("_vchan", fn), ident(tc))}}
			body := append([]ast.Stmt{bind}, cc.Body...)
			if st.Tok == token.DEFINE {
				// keep "declared and not used" away when the body ignores a bound name
				for _, l := range st.Lhs {
					if id, ok := l.(*ast.Ident); ok && id.Name != "_" {
						body = append(body[:1], append([]ast.Stmt{&ast.AssignStmt{Lhs: []ast.Expr{ident("_")}, Tok: token.ASSIGN, Rhs: []ast.Expr{ident(id.Name)}}}, body[1:]...)...)
					}
				}
			}
			sw.Body.List = append(sw.Body.List, &ast.CaseClause{List: []ast.Expr{lit}, Body: body})
		default:
			return nil, fmt.Errorf("unexpected select comm statement %T", st)
		}
	}
	sw.Body.List = append(sw.Body.List, &ast.CaseClause{List: nil, Body: []ast.Stmt{&ast.ExprStmt{X: call(ident("panic"), &ast.BasicLit{Kind: token.STRING, Value: "\"verif: select returned an unknown case\""})}}})
	hd := "false"
	if hasDefault {
		hd = "true"
	}
	args := append([]ast.Expr{ident(hd)}, cases...)
	sw.Tag = call(sel("_vchan", "Select"), args...)
	return &ast.BlockStmt{List: append(pre, sw)}, nil
}

func (c *fileCtx) rewriteChanRange(r *ast.RangeStmt) (ast.Stmt, error) {
	c.needChan = true
	if r.Value != nil {
		return nil, fmt.Errorf("range over channel with two variables")
	}
	tc, tok := c.tmp("rch"), c.tmp("rok")
	pre := &ast.AssignStmt{Lhs: []ast.Expr{ident(tc)}, Tok: token.DEFINE, Rhs: []ast.Expr{r.X}}
	var loop *ast.ForStmt
	if r.Key == nil || (isBlank(r.Key)) {
		loop = &ast.ForStmt{
			Init: &ast.AssignStmt{Lhs: []ast.Expr{ident(tok)}, Tok: token.DEFINE, Rhs: []ast.Expr{call(sel("_vchan", "RecvOK"), ident(tc))}},
			Cond: ident(tok),
			Post: &ast.AssignStmt{Lhs: []ast.Expr{ident(tok)}, Tok: token.ASSIGN, Rhs: []ast.Expr{call(sel("_vchan", "RecvOK"), ident(tc))}},
			Body: r.Body,
		}
	} else {
		if r.Tok != token.DEFINE {
			return nil, fmt.Errorf("range over channel with assignment form")
		}
		loop = &ast.ForStmt{
			Init: &ast.AssignStmt{Lhs: []ast.Expr{r.Key, ident(tok)}, Tok: token.DEFINE, Rhs: []ast.Expr{call(sel("_vchan", "Recv2"), ident(tc))}},
			Cond: ident(tok),
			Post: &ast.AssignStmt{Lhs: []ast.Expr{r.Key, ident(tok)}, Tok: token.ASSIGN, Rhs: []ast.Expr{call(sel("_vchan", "Recv2"), ident(tc))}},
			Body: r.Body,
		}
	}
	if c.labeled[r] {
		return nil, fmt.Errorf("labeled range over channel not supported")
	}
	return &ast.BlockStmt{List: []ast.Stmt{pre, loop}}, nil
}

func isBlank(e ast.Expr) bool {
	id, ok := e.(*ast.Ident)
	return ok && id.Name == "_"
}

func (c *fileCtx) rewriteMapRange(r *ast.RangeStmt) ast.Stmt {
	if r.Tok != token.DEFINE && (r.Key != nil || r.Value != nil) {
		return nil
	}
	c.needSort = true
	tm, tk, tok := c.tmp("mm"), c.tmp("mk"), c.tmp("mok")
	pre := &ast.AssignStmt{Lhs: []ast.Expr{ident(tm)}, Tok: token.DEFINE, Rhs: []ast.Expr{r.X}}
	var body []ast.Stmt
	// skip entries deleted during the iteration, as Go does
	body = append(body, &ast.IfStmt{
		Init: &ast.AssignStmt{Lhs: []ast.Expr{ident("_"), ident(tok)}, Tok: token.DEFINE, Rhs: []ast.Expr{&ast.IndexExpr{X: ident(tm), Index: ident(tk)}}},
		Cond: &ast.UnaryExpr{Op: token.NOT, X: ident(tok)},
		Body: &ast.BlockStmt{List: []ast.Stmt{&ast.BranchStmt{Tok: token.CONTINUE}}},
	})
	if r.Key != nil && !isBlank(r.Key) {
		body = append(body, &ast.AssignStmt{Lhs: []ast.Expr{r.Key}, Tok: token.DEFINE, Rhs: []ast.Expr{ident(tk)}})
	}
	if r.Value != nil && !isBlank(r.Value) {
		body = append(body, &ast.AssignStmt{Lhs: []ast.Expr{r.Value}, Tok: token.DEFINE, Rhs: []ast.Expr{&ast.IndexExpr{X: ident(tm), Index: ident(tk)}}})
	}
	body = append(body, r.Body.List...)
	loop := &ast.RangeStmt{Key: ident("_"), Value: ident(tk), Tok: token.DEFINE, X: call(sel("_vsort", "Keys"), ident(tm)), Body: &ast.BlockStmt{List: body}}
	return &ast.BlockStmt{List: []ast.Stmt{pre, loop}}
}

var _ = sort.Strings

// genGlobalsSaver adds, to every package of the repository that has package-level variables, a generated file
// whose init registers a saver with the scheduler: a shallow copy of every package-level variable, and a function
// that writes the copies back (see sched.SnapshotGlobals).
func genGlobalsSaver(p *packages.Package, repo, gen string, overlay map[string]string) error {
	if len(p.CompiledGoFiles) == 0 || p.Types == nil {
		return nil
	}
	dir := filepath.Dir(p.CompiledGoFiles[0])
	if !strings.HasPrefix(dir, repo+"/lambda") && !strings.HasPrefix(dir, repo+"/cmd") {
		return nil
	}
	var names []string
	for _, f := range p.Syntax {
		for _, d := range f.Decls {
			gd, ok := d.(*ast.GenDecl)
			if !ok || gd.Tok != token.VAR {
				continue
			}
			for _, sp := range gd.Specs {
				for _, n := range sp.(*ast.ValueSpec).Names {
					if n.Name != "_" {
						names = append(names, n.Name)
					}
				}
			}
		}
	}
	if len(names) == 0 {
		return nil
	}
	sort.Strings(names)
	var sb strings.Builder
	fmt.Fprintf(&sb, "// Code generated by vinstr; DO NOT EDIT.\n\npackage %s\n\nimport _vsched %q\n\nfunc init() {\n\t_vsched.RegisterGlobals(func() func() {\n", p.Name, rtPrefix+"sched")
	for i, n := range names {
		fmt.Fprintf(&sb, "\t\t_s%d := %s\n", i, n)
	}
	sb.WriteString("\t\treturn func() {\n")
	for i, n := range names {
		fmt.Fprintf(&sb, "\t\t\t%s = _s%d\n", n, i)
	}
	sb.WriteString("\t\t}\n\t})\n}\n")
	rel := strings.TrimPrefix(dir, repo+"/")
	dst := filepath.Join(gen, rel, "zz_verif_globals.go")
	if err := os.MkdirAll(filepath.Dir(dst), 0o755); err != nil {
		return err
	}
	if err := os.WriteFile(dst, []byte(sb.String()), 0o644); err != nil {
		return err
	}
	overlay[filepath.Join(dir, "zz_verif_globals.go")] = dst
	return nil
}
