#!/bin/bash
# Kernel conformance replay for C19 (DESIGN 2.6): binds the simulated kernel of rt/vexec to the real one.
#   1. scenario "model-table" of harness/c19 emits, for every behaviour x operation, what the real
#      LocalSupervisor code produces on the SIMULATED kernel (event, result, liveness);
#   2. verif_conformance_test.go is copied into a scratch worktree of the repository and replays every
#      row with the UNINSTRUMENTED LocalSupervisor on real /bin/sh children, comparing the same fields.
# Prints one CONFORMANCE line per row and finally CONFORMS or DIFFERS. Exit 0 / 1; 2 = could not run.
# Run by the harness setup / selftest, not by ./check.
set -u
export GOFLAGS=-mod=mod GOPROXY=off GOSUMDB=off GOTOOLCHAIN=local
HERE=$(cd "$(dirname "${BASH_SOURCE[0]}")" && pwd)
V=$(cd "$HERE/../.." && pwd)
REPO=${VERIF_REPO:-/repo}
W=$(mktemp -d /tmp/vconf.XXXXXX)
cleanup() { git -C "$REPO" worktree remove --force "$W/repo" >/dev/null 2>&1; rm -rf "$W"; git -C "$REPO" worktree prune >/dev/null 2>&1; }
trap cleanup EXIT
BIN=$("$V/build.sh" 2>"$W/build.log" | tail -1)
if [ -z "$BIN" ] || [ ! -x "$BIN" ]; then tail -20 "$W/build.log"; echo "BROKEN build"; exit 2; fi
"$BIN" -prop C19 -tier quick -only model-table -out "$W/worker.json" 2>"$W/worker.log" || { tail -20 "$W/worker.log"; echo "BROKEN model-table"; exit 2; }
python3 - "$W/worker.json" "$W/model_table.json" <<'PY' || { echo "BROKEN model-table extraction"; exit 2; }
import json, sys
d = json.load(open(sys.argv[1]))
rows = [r for s in d["scenarios"] if s["name"] == "model-table" for r in s.get("samples") or []]
assert rows, "no rows"
json.dump(rows, open(sys.argv[2], "w"), indent=1)
PY
git -C "$REPO" worktree add -q --detach "$W/repo" HEAD >/dev/null 2>&1 || { echo "BROKEN worktree"; exit 2; }
cp "$HERE/verif_conformance_test.go" "$W/repo/lambda/supervisor/verif_conformance_test.go"
(cd "$W/repo" && VERIF_MODEL_TABLE="$W/model_table.json" go test -v -vet=off -count=1 -timeout 30m -run 'TestVerifConformance$' ./lambda/supervisor/) >"$W/test.log" 2>&1
RC=$?
grep '^CONFORMANCE' "$W/test.log"
if ! grep -q '^CONFORMANCE rows=' "$W/test.log"; then tail -30 "$W/test.log"; echo "BROKEN replay did not complete"; exit 2; fi
if [ $RC -eq 0 ] && grep -q '^CONFORMANCE rows=[0-9]* differing=0$' "$W/test.log"; then
  echo "CONFORMS $(grep -o 'rows=[0-9]*' "$W/test.log" | tail -1)"
  exit 0
fi
echo "DIFFERS"
exit 1
