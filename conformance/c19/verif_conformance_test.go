// Kernel conformance replay for property C19 (DESIGN 2.6). NOT part of the repository: run.sh copies
// this file into a scratch worktree of the repository (lambda/supervisor/) and runs it there against
// the UNINSTRUMENTED LocalSupervisor with real /bin/sh children.
//
// Input: the model table (JSON, $VERIF_MODEL_TABLE) produced by scenario "model-table" of harness/c19:
// for every behaviour x operation what supervisor + simulated kernel produce when the steps are taken
// one after the other. Every row is replayed on the real kernel and compared: termination event,
// result of the operation, liveness (kill -0, zombies count as dead) of the main process and of the
// forked child. Waits are one-sided and generous: something the model says will happen is awaited for
// up to 20 s; something the model says will not happen is looked for during a short settle time only.

package supervisor

import (
	"context"
	"encoding/json"
	"fmt"
	"os"
	"strconv"
	"strings"
	"syscall"
	"testing"
	"time"

	"go.amzn.com/lambda/supervisor/model"
)

type verifRow struct {
	Behaviour  string `json:"behaviour"`
	Op         string `json:"op"`
	Shell      string `json:"shell"`
	SelfExits  bool   `json:"self_exits"`
	HasChild   bool   `json:"has_child"`
	Event      string `json:"event"`
	Result     string `json:"result"`
	MainAlive  bool   `json:"main_alive"`
	ChildAlive string `json:"child_alive"`
}

const (
	verifGenerous = 20 * time.Second
	verifSettle   = 400 * time.Millisecond
)

// verifAlive: the pid exists and is not a zombie.
func verifAlive(pid int) bool {
	if pid <= 0 || syscall.Kill(pid, 0) != nil {
		return false
	}
	b, err := os.ReadFile(fmt.Sprintf("/proc/%d/stat", pid))
	if err != nil {
		return false
	}
	s := string(b)
	if i := strings.LastIndexByte(s, ')'); i >= 0 && i+2 < len(s) {
		return s[i+2] != 'Z' && s[i+2] != 'X'
	}
	return true
}

// verifAwait polls cond for up to d.
func verifAwait(d time.Duration, cond func() bool) bool {
	end := time.Now().Add(d)
	for {
		if cond() {
			return true
		}
		if time.Now().After(end) {
			return false
		}
		time.Sleep(10 * time.Millisecond)
	}
}

func verifReplay(t *testing.T, row verifRow) (got verifRow, note string) {
	got = row
	got.Event, got.Result, got.ChildAlive = "none", "-", "n/a"
	sup := NewLocalSupervisor()
	ctx := context.Background()
	evch, _ := sup.Events(ctx, &model.EventsRequest{Domain: "runtime"})
	out, err := os.CreateTemp(t.TempDir(), "out")
	if err != nil {
		t.Fatal(err)
	}
	defer out.Close()
	nEvents := 0
	take := func(d time.Duration) bool {
		select {
		case ev := <-evch:
			nEvents++
			s := "empty"
			switch {
			case ev.Event.ExitStatus != nil:
				s = fmt.Sprintf("exit:%d", *ev.Event.ExitStatus)
			case ev.Event.Signo != nil:
				s = fmt.Sprintf("signal:%d", *ev.Event.Signo)
			}
			if nEvents > 1 {
				got.Event = fmt.Sprintf("several events (%s, %s)", got.Event, s)
			} else {
				got.Event = s
			}
			return true
		case <-time.After(d):
			return false
		}
	}
	// an *os.File as stdout: exec hands it to the child directly, Wait does not depend on the
	// grandchild closing a pipe
	err = sup.Exec(ctx, &model.ExecRequest{Domain: "runtime", Name: "p0", Path: "/bin/sh", Args: []string{"-c", row.Shell}, StdoutWriter: out, StderrWriter: out})
	if err != nil {
		return got, "exec failed: " + err.Error()
	}
	sup.processMapLock.Lock()
	pid := sup.processMap["p0"].pid
	sup.processMapLock.Unlock()
	lines := func() []string {
		b, _ := os.ReadFile(out.Name())
		return strings.Fields(string(b))
	}
	childPid := 0
	defer func() {
		// leave nothing behind
		syscall.Kill(-pid, syscall.SIGKILL)
		if childPid > 0 {
			syscall.Kill(childPid, syscall.SIGKILL)
		}
		if nEvents == 0 {
			// let the Wait goroutine deliver its event and end (not part of the observation)
			select {
			case <-evch:
			case <-time.After(verifGenerous):
			}
		}
	}()
	// settle after Exec
	if row.HasChild {
		if !verifAwait(verifGenerous, func() bool { l := lines(); return len(l) > 0 }) {
			return got, "the script did not report its child"
		}
		childPid, _ = strconv.Atoi(lines()[0])
	}
	if row.SelfExits {
		if !take(verifGenerous) {
			return got, "no termination event for a script that exits by itself"
		}
	} else if !verifAwait(verifGenerous, func() bool {
		for _, l := range lines() {
			if l == "ready" {
				return true
			}
		}
		return false
	}) {
		return got, "the script did not become ready"
	}
	// the operation
	res := func(err error) string {
		if err != nil {
			return "error"
		}
		return "nil"
	}
	switch row.Op {
	case "natural":
	case "terminate":
		got.Result = res(sup.Terminate(ctx, &model.TerminateRequest{Domain: "runtime", Name: "p0"}))
	case "kill-far":
		got.Result = res(sup.Kill(ctx, &model.KillRequest{Domain: "runtime", Name: "p0", Deadline: time.Now().Add(verifGenerous)}))
	case "kill-past":
		got.Result = res(sup.Kill(ctx, &model.KillRequest{Domain: "runtime", Name: "p0", Deadline: time.Now().Add(-time.Second)}))
	case "kill-unknown":
		got.Result = res(sup.Kill(ctx, &model.KillRequest{Domain: "runtime", Name: "ghost", Deadline: time.Now().Add(verifGenerous)}))
	default:
		return got, "unknown operation " + row.Op
	}
	// settle after the operation: await what the model announces, merely look for what it excludes
	if nEvents == 0 {
		if row.Event != "none" {
			take(verifGenerous)
		} else {
			take(verifSettle)
		}
	}
	take(verifSettle / 4) // a surplus event would show here
	if row.MainAlive {
		got.MainAlive = verifAlive(pid)
	} else {
		got.MainAlive = !verifAwait(verifGenerous, func() bool { return !verifAlive(pid) })
	}
	if row.HasChild {
		if row.ChildAlive == "false" {
			got.ChildAlive = fmt.Sprint(!verifAwait(verifGenerous, func() bool { return !verifAlive(childPid) }))
		} else {
			got.ChildAlive = fmt.Sprint(verifAlive(childPid))
		}
	}
	return got, ""
}

func TestVerifConformance(t *testing.T) {
	path := os.Getenv("VERIF_MODEL_TABLE")
	if path == "" {
		t.Skip("VERIF_MODEL_TABLE not set")
	}
	b, err := os.ReadFile(path)
	if err != nil {
		t.Fatal(err)
	}
	var rows []verifRow
	if err := json.Unmarshal(b, &rows); err != nil {
		t.Fatal(err)
	}
	if len(rows) == 0 {
		t.Fatal("empty model table")
	}
	differ := 0
	for _, row := range rows {
		got, note := verifReplay(t, row)
		same := note == "" && got.Event == row.Event && got.Result == row.Result && got.MainAlive == row.MainAlive && got.ChildAlive == row.ChildAlive
		verdict := "same"
		if !same {
			verdict = "DIFFERS"
			differ++
		}
		fmt.Printf("CONFORMANCE %-10s %-12s model{event=%s result=%s main_alive=%v child_alive=%s} real{event=%s result=%s main_alive=%v child_alive=%s} %s %s\n",
			row.Behaviour, row.Op, row.Event, row.Result, row.MainAlive, row.ChildAlive, got.Event, got.Result, got.MainAlive, got.ChildAlive, verdict, note)
	}
	fmt.Printf("CONFORMANCE rows=%d differing=%d\n", len(rows), differ)
	if differ > 0 {
		t.Fatalf("%d of %d rows differ between the simulated and the real kernel", differ, len(rows))
	}
}
