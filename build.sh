#!/bin/bash
# Build the verification worker from the current working tree of $VERIF_REPO (default /repo).
# Prints the path of the binary. Cached by a content hash over repo sources and /verif machinery.
set -euo pipefail
export GOFLAGS=-mod=mod GOPROXY=off GOSUMDB=off GOTOOLCHAIN=local CGO_ENABLED=0
VERIF=$(cd "$(dirname "${BASH_SOURCE[0]}")" && pwd)
REPO=${VERIF_REPO:-/repo}
mkdir -p $VERIF/out/build $VERIF/out/bin
if [ ! -x $VERIF/out/bin/vinstr ] || [ -n "$(find $VERIF/tools -newer $VERIF/out/bin/vinstr -name '*.go' 2>/dev/null)" ]; then
  (cd $VERIF/tools && go build -o $VERIF/out/bin/vinstr ./vinstr) >&2
fi
KEY=$( (cd $REPO && find lambda cmd go.mod go.sum -type f \( -name '*.go' -o -name 'go.mod' -o -name 'go.sum' \) -print0 | sort -z | xargs -0 sha256sum; \
        cd $VERIF && find rt harness entry tools racy_sites.txt -type f \( -name "*.go" -o -name racy_sites.txt \) -print0 | sort -z | xargs -0 sha256sum; echo $REPO $VERIF ${VERIF_RACE:-}) | sha256sum | cut -c1-16)
DIR=$VERIF/out/build/$KEY
BIN=$DIR/rie.verif.test
exec 9>$VERIF/out/build/.lock
flock 9
if [ ! -x $BIN ]; then
  rm -rf $DIR; mkdir -p $DIR
  $VERIF/out/bin/vinstr -repo $REPO -verif $VERIF -out $DIR -extra $VERIF/tools/litmus/lit ${VERIF_RACE:+-race} >&2
  (cd $REPO && go test -c -vet=off -tags verif -overlay $DIR/overlay.json -o $BIN go.amzn.com/cmd/aws-lambda-rie) >&2
  # keep only the 8 most recent builds
  ls -1dt $VERIF/out/build/*/ 2>/dev/null | tail -n +9 | xargs -r rm -rf
fi
echo $BIN
